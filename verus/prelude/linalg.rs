// ---------------------------------------------------------------------------
// Module `linalg`: PROVED ring lemmas about 3x3 real matrices (nothing assumed).
// Large polynomial identities are staged through small distributivity / associativity
// steps (one by(nonlinear_arith) query per step), see DESIGN.md section 2.
// ---------------------------------------------------------------------------
pub mod linalg {
use vstd::prelude::*;
use super::na::*;

pub proof fn lemma_dist3(a: real, b: real, c: real, x: real)
    ensures (a + b + c) * x == a * x + b * x + c * x, x * (a + b + c) == x * a + x * b + x * c
{
    assert((a + b + c) * x == a * x + b * x + c * x) by(nonlinear_arith);
    assert(x * (a + b + c) == x * a + x * b + x * c) by(nonlinear_arith);
}
pub proof fn lemma_assoc(a: real, b: real, c: real)
    ensures (a * b) * c == a * (b * c)
{
    assert((a * b) * c == a * (b * c)) by(nonlinear_arith);
}
/// row vector * matrix
pub open spec fn vecmat(r: V3, b: M3) -> V3 { V3 { x: vdot(r, mcol(b, 0)), y: vdot(r, mcol(b, 1)), z: vdot(r, mcol(b, 2)) } }

/// (r * B) . c == r . (B * c)
pub proof fn lemma_rowmatcol(r: V3, b: M3, c: V3)
    ensures vdot(vecmat(r, b), c) == vdot(r, mvec(b, c))
{
    // left: (r.x*b.a.x + r.y*b.b.x + r.z*b.c.x)*c.x + (...)*c.y + (...)*c.z
    lemma_dist3(r.x * b.a.x, r.y * b.b.x, r.z * b.c.x, c.x);
    lemma_dist3(r.x * b.a.y, r.y * b.b.y, r.z * b.c.y, c.y);
    lemma_dist3(r.x * b.a.z, r.y * b.b.z, r.z * b.c.z, c.z);
    // right: r.x*(b.a.x*c.x + b.a.y*c.y + b.a.z*c.z) + ...
    lemma_dist3(b.a.x * c.x, b.a.y * c.y, b.a.z * c.z, r.x);
    lemma_dist3(b.b.x * c.x, b.b.y * c.y, b.b.z * c.z, r.y);
    lemma_dist3(b.c.x * c.x, b.c.y * c.y, b.c.z * c.z, r.z);
    lemma_assoc(r.x, b.a.x, c.x); lemma_assoc(r.y, b.b.x, c.x); lemma_assoc(r.z, b.c.x, c.x);
    lemma_assoc(r.x, b.a.y, c.y); lemma_assoc(r.y, b.b.y, c.y); lemma_assoc(r.z, b.c.y, c.y);
    lemma_assoc(r.x, b.a.z, c.z); lemma_assoc(r.y, b.b.z, c.z); lemma_assoc(r.z, b.c.z, c.z);
}

/// rows of a product: row_i(A*B) == row_i(A) * B
pub proof fn lemma_mmul_rows(a: M3, b: M3)
    ensures mmul(a, b).a == vecmat(a.a, b), mmul(a, b).b == vecmat(a.b, b), mmul(a, b).c == vecmat(a.c, b)
{ }
/// columns of a product: col_j(B*C) == B * col_j(C)
pub proof fn lemma_mmul_cols(b: M3, c: M3)
    ensures mcol(mmul(b, c), 0) == mvec(b, mcol(c, 0)), mcol(mmul(b, c), 1) == mvec(b, mcol(c, 1)), mcol(mmul(b, c), 2) == mvec(b, mcol(c, 2))
{ }

/// matrix product is associative
pub proof fn lemma_mmul_assoc(a: M3, b: M3, c: M3)
    ensures mmul(mmul(a, b), c) == mmul(a, mmul(b, c))
{
    lemma_mmul_rows(a, b);
    lemma_mmul_cols(b, c);
    lemma_rowmatcol(a.a, b, mcol(c, 0)); lemma_rowmatcol(a.a, b, mcol(c, 1)); lemma_rowmatcol(a.a, b, mcol(c, 2));
    lemma_rowmatcol(a.b, b, mcol(c, 0)); lemma_rowmatcol(a.b, b, mcol(c, 1)); lemma_rowmatcol(a.b, b, mcol(c, 2));
    lemma_rowmatcol(a.c, b, mcol(c, 0)); lemma_rowmatcol(a.c, b, mcol(c, 1)); lemma_rowmatcol(a.c, b, mcol(c, 2));
    let l = mmul(mmul(a, b), c);
    let r = mmul(a, mmul(b, c));
    assert(l.a.x == r.a.x && l.a.y == r.a.y && l.a.z == r.a.z);
    assert(l.b.x == r.b.x && l.b.y == r.b.y && l.b.z == r.b.z);
    assert(l.c.x == r.c.x && l.c.y == r.c.y && l.c.z == r.c.z);
}
/// (A*B)*v == A*(B*v)
pub proof fn lemma_mvec_assoc(a: M3, b: M3, v: V3)
    ensures mvec(mmul(a, b), v) == mvec(a, mvec(b, v))
{
    lemma_mmul_rows(a, b);
    lemma_rowmatcol(a.a, b, v); lemma_rowmatcol(a.b, b, v); lemma_rowmatcol(a.c, b, v);
}
pub proof fn lemma_dist2(a: real, x: real, y: real)
    ensures a * (x + y) == a * x + a * y
{
    assert(a * (x + y) == a * x + a * y) by(nonlinear_arith);
}
pub proof fn lemma_vdot_add(r: V3, u: V3, v: V3)
    ensures vdot(r, vadd(u, v)) == vdot(r, u) + vdot(r, v)
{
    lemma_dist2(r.x, u.x, v.x); lemma_dist2(r.y, u.y, v.y); lemma_dist2(r.z, u.z, v.z);
}
/// A*(u + v) == A*u + A*v
pub proof fn lemma_mvec_add(a: M3, u: V3, v: V3)
    ensures mvec(a, vadd(u, v)) == vadd(mvec(a, u), mvec(a, v))
{
    lemma_vdot_add(a.a, u, v); lemma_vdot_add(a.b, u, v); lemma_vdot_add(a.c, u, v);
}
/// isometry composition is associative (PROVED; supersedes the axiom ax_iso_assoc where used)
pub proof fn lemma_iso_assoc(a: Iso, b: Iso, c: Iso)
    ensures iso_mul(iso_mul(a, b), c) == iso_mul(a, iso_mul(b, c))
{
    lemma_mmul_assoc(a.r, b.r, c.r);
    lemma_mvec_assoc(a.r, b.r, c.t);
    lemma_mvec_add(a.r, b.t, mvec(b.r, c.t));
    let l = iso_mul(iso_mul(a, b), c);
    let r = iso_mul(a, iso_mul(b, c));
    assert(l.t.x == r.t.x && l.t.y == r.t.y && l.t.z == r.t.z);
}
/// identity laws
pub proof fn lemma_vdot_unit(v: V3)
    ensures vdot(v3(1real, 0real, 0real), v) == v.x, vdot(v3(0real, 1real, 0real), v) == v.y, vdot(v3(0real, 0real, 1real), v) == v.z,
            vdot(v, v3(1real, 0real, 0real)) == v.x, vdot(v, v3(0real, 1real, 0real)) == v.y, vdot(v, v3(0real, 0real, 1real)) == v.z,
{ }
pub proof fn lemma_mid(a: M3, v: V3)
    ensures mmul(mid(), a) == a, mmul(a, mid()) == a, mvec(mid(), v) == v
{
    lemma_vdot_unit(mcol(a, 0)); lemma_vdot_unit(mcol(a, 1)); lemma_vdot_unit(mcol(a, 2));
    lemma_vdot_unit(a.a); lemma_vdot_unit(a.b); lemma_vdot_unit(a.c); lemma_vdot_unit(v);
    let l = mmul(mid(), a); let r = mmul(a, mid());
    assert(l.a == a.a && l.b == a.b && l.c == a.c);
    assert(mcol(mid(), 0) == v3(1real, 0real, 0real) && mcol(mid(), 1) == v3(0real, 1real, 0real) && mcol(mid(), 2) == v3(0real, 0real, 1real));
    assert(r.a == a.a && r.b == a.b && r.c == a.c);
}
pub proof fn lemma_comm(a: real, b: real) ensures a * b == b * a { assert(a * b == b * a) by(nonlinear_arith); }
pub proof fn lemma_vdot_comm(u: V3, v: V3)
    ensures vdot(u, v) == vdot(v, u)
{ lemma_comm(u.x, v.x); lemma_comm(u.y, v.y); lemma_comm(u.z, v.z); }
/// (A*B)^T == B^T * A^T
pub proof fn lemma_mtr_mul(a: M3, b: M3)
    ensures mtr(mmul(a, b)) == mmul(mtr(b), mtr(a))
{
    lemma_vdot_comm(a.a, mcol(b, 0)); lemma_vdot_comm(a.a, mcol(b, 1)); lemma_vdot_comm(a.a, mcol(b, 2));
    lemma_vdot_comm(a.b, mcol(b, 0)); lemma_vdot_comm(a.b, mcol(b, 1)); lemma_vdot_comm(a.b, mcol(b, 2));
    lemma_vdot_comm(a.c, mcol(b, 0)); lemma_vdot_comm(a.c, mcol(b, 1)); lemma_vdot_comm(a.c, mcol(b, 2));
    let l = mtr(mmul(a, b)); let r = mmul(mtr(b), mtr(a));
    assert(l.a.x == r.a.x && l.a.y == r.a.y && l.a.z == r.a.z);
    assert(l.b.x == r.b.x && l.b.y == r.b.y && l.b.z == r.b.z);
    assert(l.c.x == r.c.x && l.c.y == r.c.y && l.c.z == r.c.z);
}
pub proof fn lemma_mtr_mtr(a: M3) ensures mtr(mtr(a)) == a { }
/// A*(k v) == k (A v)
pub proof fn lemma_scale3(k: real, a: real, x: real) ensures a * (k * x) == k * (a * x) { assert(a * (k * x) == k * (a * x)) by(nonlinear_arith); }
pub proof fn lemma_vdot_scale(r: V3, k: real, v: V3)
    ensures vdot(r, vscale(k, v)) == k * vdot(r, v)
{
    lemma_scale3(k, r.x, v.x); lemma_scale3(k, r.y, v.y); lemma_scale3(k, r.z, v.z);
    lemma_dist3(r.x * v.x, r.y * v.y, r.z * v.z, k);
}
pub proof fn lemma_mvec_scale(a: M3, k: real, v: V3)
    ensures mvec(a, vscale(k, v)) == vscale(k, mvec(a, v))
{ lemma_vdot_scale(a.a, k, v); lemma_vdot_scale(a.b, k, v); lemma_vdot_scale(a.c, k, v); }

/// product of orthogonal matrices is orthogonal
pub proof fn lemma_proper_mul(a: M3, b: M3)
    requires proper(a), proper(b)
    ensures proper(mmul(a, b))
{
    let ab = mmul(a, b);
    lemma_mtr_mul(a, b);
    // (AB)(B^T A^T) = A (B B^T) A^T = A A^T = I
    lemma_mmul_assoc(ab, mtr(b), mtr(a));
    lemma_mmul_assoc(a, b, mtr(b));
    lemma_mid(a, v3(0real, 0real, 0real));
    // (B^T A^T)(AB) = B^T (A^T A) B = B^T B = I
    lemma_mmul_assoc(mmul(mtr(b), mtr(a)), a, b);
    lemma_mmul_assoc(mtr(b), mtr(a), a);
    lemma_mid(mtr(b), v3(0real, 0real, 0real));
}
/// group laws of rigid motions (PROVED)
pub proof fn lemma_iso_identity(a: Iso)
    ensures iso_mul(a, iso_id()) == a, iso_mul(iso_id(), a) == a
{
    lemma_mid(a.r, a.t);
    let l = iso_mul(a, iso_id());
    assert(mvec(a.r, v3(0real, 0real, 0real)) == v3(0real, 0real, 0real));
    assert(l.t.x == a.t.x && l.t.y == a.t.y && l.t.z == a.t.z);
    let r = iso_mul(iso_id(), a);
    assert(r.t.x == a.t.x && r.t.y == a.t.y && r.t.z == a.t.z);
}
pub proof fn lemma_iso_inverse(a: Iso)
    requires iso_wf(a)
    ensures iso_mul(a, iso_inv(a)) == iso_id(), iso_mul(iso_inv(a), a) == iso_id(), iso_wf(iso_inv(a))
{
    let at = mtr(a.r);
    lemma_mtr_mtr(a.r);
    let w = mvec(at, a.t);
    lemma_mvec_scale(a.r, -1real, w);
    lemma_mvec_assoc(a.r, at, a.t);
    lemma_mid(a.r, a.t);
    let l = iso_mul(a, iso_inv(a));
    assert(mvec(a.r, w) == a.t);
    assert(l.t.x == 0real && l.t.y == 0real && l.t.z == 0real);
    let r = iso_mul(iso_inv(a), a);
    assert(r.t.x == 0real && r.t.y == 0real && r.t.z == 0real);
}
pub proof fn lemma_iso_mul_wf(a: Iso, b: Iso)
    requires iso_wf(a), iso_wf(b)
    ensures iso_wf(iso_mul(a, b))
{ lemma_proper_mul(a.r, b.r); }
/// elementary rotations are orthogonal
pub proof fn lemma_rot_proper(s: real, c: real)
    requires s * s + c * c == 1real
    ensures proper(rot_z(s, c)), proper(rot_y(s, c))
{
    lemma_rotz_rows(s, c, rot_z(s, c), mtr(rot_z(s, c)));
    lemma_rotz_rows(-s, c, mtr(rot_z(s, c)), rot_z(s, c));
    lemma_roty_rows(s, c, rot_y(s, c), mtr(rot_y(s, c)));
    lemma_roty_rows(-s, c, mtr(rot_y(s, c)), rot_y(s, c));
}
proof fn lemma_rotz_rows(s: real, c: real, z: M3, zt: M3)
    requires s * s + c * c == 1real, z == rot_z(s, c), zt == rot_z(-s, c)
    ensures mmul(z, zt) == mid()
{
    let p1 = c * c; let p2 = s * s; let p3 = c * s; let p4 = s * c;
    assert(p3 == p4) by(nonlinear_arith) requires p3 == c * s, p4 == s * c;
    assert((-s) * (-s) == p2) by(nonlinear_arith) requires p2 == s * s;
    assert((-s) * c == -p4) by(nonlinear_arith) requires p4 == s * c;
    assert(c * (-s) == -p3) by(nonlinear_arith) requires p3 == c * s;
    assert(s * (-s) == -p2) by(nonlinear_arith) requires p2 == s * s;
    let a = mmul(z, zt);
    // columns of zt
    assert(mcol(zt, 0) == v3(c, -s, 0real)); assert(mcol(zt, 1) == v3(s, c, 0real)); assert(mcol(zt, 2) == v3(0real, 0real, 1real));
    lemma_vdot_unit(z.a); lemma_vdot_unit(z.b); lemma_vdot_unit(z.c);
    lemma_vdot_unit(mcol(zt, 0)); lemma_vdot_unit(mcol(zt, 1)); lemma_vdot_unit(mcol(zt, 2));
    assert(a.a.x == c * c + (-s) * (-s) + 0real * 0real);
    assert(a.a.y == c * s + (-s) * c + 0real * 0real);
    assert(a.b.x == s * c + c * (-s) + 0real * 0real);
    assert(a.b.y == s * s + c * c + 0real * 0real);
    assert(a.a == v3(1real, 0real, 0real));
    assert(a.b == v3(0real, 1real, 0real));
    assert(a.c == v3(0real, 0real, 1real));
}
proof fn lemma_roty_rows(s: real, c: real, y: M3, yt: M3)
    requires s * s + c * c == 1real, y == rot_y(s, c), yt == rot_y(-s, c)
    ensures mmul(y, yt) == mid()
{
    let p1 = c * c; let p2 = s * s; let p3 = c * s; let p4 = s * c;
    assert(p3 == p4) by(nonlinear_arith) requires p3 == c * s, p4 == s * c;
    assert((-s) * (-s) == p2) by(nonlinear_arith) requires p2 == s * s;
    assert((-s) * c == -p4) by(nonlinear_arith) requires p4 == s * c;
    assert(c * (-s) == -p3) by(nonlinear_arith) requires p3 == c * s;
    assert(s * (-s) == -p2) by(nonlinear_arith) requires p2 == s * s;
    let a = mmul(y, yt);
    assert(mcol(yt, 0) == v3(c, 0real, s)); assert(mcol(yt, 1) == v3(0real, 1real, 0real)); assert(mcol(yt, 2) == v3(-s, 0real, c));
    lemma_vdot_unit(y.a); lemma_vdot_unit(y.b); lemma_vdot_unit(y.c);
    lemma_vdot_unit(mcol(yt, 0)); lemma_vdot_unit(mcol(yt, 1)); lemma_vdot_unit(mcol(yt, 2));
    assert(a.a.x == c * c + 0real * 0real + s * s);
    assert(a.a.z == c * (-s) + 0real * 0real + s * c);
    assert(a.c.x == (-s) * c + 0real * 0real + c * s);
    assert(a.c.z == (-s) * (-s) + 0real * 0real + c * c);
    assert(a.a == v3(1real, 0real, 0real));
    assert(a.b == v3(0real, 1real, 0real));
    assert(a.c == v3(0real, 0real, 1real));
}
/// translation followed by rotation about the origin
pub proof fn lemma_link(t: V3, r: M3)
    ensures iso_mul(Iso { r: mid(), t: t }, Iso { r: r, t: v3(0real, 0real, 0real) }) == (Iso { r: r, t: t })
{
    lemma_mid(r, v3(0real, 0real, 0real));
    let l = iso_mul(Iso { r: mid(), t: t }, Iso { r: r, t: v3(0real, 0real, 0real) });
    assert(l.t.x == t.x && l.t.y == t.y && l.t.z == t.z);
}
// ---- closed forms of the two OPW rotation triples (standard textbook expansions) ------------------------
/// Rz(q1) Ry(q2) Ry(q3)
pub open spec fn r03c(s1: real, c1: real, s2: real, c2: real, s3: real, c3: real) -> M3 {
    M3 { a: v3(c1 * c2 * c3 - c1 * s2 * s3, -s1, c1 * c2 * s3 + c1 * s2 * c3),
         b: v3(s1 * c2 * c3 - s1 * s2 * s3, c1, s1 * c2 * s3 + s1 * s2 * c3),
         c: v3(-s2 * c3 - c2 * s3, 0real, -s2 * s3 + c2 * c3) }
}
/// Rz(q4) Ry(q5) Rz(q6)
pub open spec fn r36c(s4: real, c4: real, s5: real, c5: real, s6: real, c6: real) -> M3 {
    M3 { a: v3(c4 * c5 * c6 - s4 * s6, -c4 * c5 * s6 - s4 * c6, c4 * s5),
         b: v3(s4 * c5 * c6 + c4 * s6, -s4 * c5 * s6 + c4 * c6, s4 * s5),
         c: v3(-s5 * c6, s5 * s6, c5) }
}
pub proof fn lemma_zy(s1: real, c1: real, s2: real, c2: real)
    ensures mmul(rot_z(s1, c1), rot_y(s2, c2)) == (M3 { a: v3(c1 * c2, -s1, c1 * s2), b: v3(s1 * c2, c1, s1 * s2), c: v3(-s2, 0real, c2) })
{
    let z = rot_z(s1, c1); let y = rot_y(s2, c2);
    assert(mcol(y, 0) == v3(c2, 0real, -s2)); assert(mcol(y, 1) == v3(0real, 1real, 0real)); assert(mcol(y, 2) == v3(s2, 0real, c2));
    lemma_vdot_unit(z.a); lemma_vdot_unit(z.b); lemma_vdot_unit(z.c);
    lemma_vdot_unit(mcol(y, 0)); lemma_vdot_unit(mcol(y, 2));
    let m = mmul(z, y);
    assert(m.a.x == c1 * c2 + (-s1) * 0real + 0real * (-s2));
    assert(m.a.z == c1 * s2 + (-s1) * 0real + 0real * c2);
    assert(m.b.x == s1 * c2 + c1 * 0real + 0real * (-s2));
    assert(m.b.z == s1 * s2 + c1 * 0real + 0real * c2);
    assert(m.c.x == 0real * c2 + 0real * 0real + 1real * (-s2));
    assert(m.c.z == 0real * s2 + 0real * 0real + 1real * c2);
    assert(m.a == v3(c1 * c2, -s1, c1 * s2));
    assert(m.b == v3(s1 * c2, c1, s1 * s2));
    assert(m.c == v3(-s2, 0real, c2));
}
pub proof fn lemma_r03(s1: real, c1: real, s2: real, c2: real, s3: real, c3: real)
    ensures mmul(mmul(rot_z(s1, c1), rot_y(s2, c2)), rot_y(s3, c3)) == r03c(s1, c1, s2, c2, s3, c3)
{
    lemma_zy(s1, c1, s2, c2);
    let p = mmul(rot_z(s1, c1), rot_y(s2, c2));
    let y = rot_y(s3, c3);
    assert(mcol(y, 0) == v3(c3, 0real, -s3)); assert(mcol(y, 1) == v3(0real, 1real, 0real)); assert(mcol(y, 2) == v3(s3, 0real, c3));
    lemma_vdot_unit(p.a); lemma_vdot_unit(p.b); lemma_vdot_unit(p.c);
    let m = mmul(p, y);
    let e = r03c(s1, c1, s2, c2, s3, c3);
    assert(m.a.x == (c1 * c2) * c3 + (-s1) * 0real + (c1 * s2) * (-s3));
    assert((c1 * c2) * c3 + (c1 * s2) * (-s3) == c1 * c2 * c3 - c1 * s2 * s3) by(nonlinear_arith);
    assert(m.a.z == (c1 * c2) * s3 + (-s1) * 0real + (c1 * s2) * c3);
    assert(m.b.x == (s1 * c2) * c3 + c1 * 0real + (s1 * s2) * (-s3));
    assert((s1 * c2) * c3 + (s1 * s2) * (-s3) == s1 * c2 * c3 - s1 * s2 * s3) by(nonlinear_arith);
    assert(m.b.z == (s1 * c2) * s3 + c1 * 0real + (s1 * s2) * c3);
    assert(m.c.x == (-s2) * c3 + 0real * 0real + c2 * (-s3));
    assert((-s2) * c3 + c2 * (-s3) == -s2 * c3 - c2 * s3) by(nonlinear_arith);
    assert(m.c.z == (-s2) * s3 + 0real * 0real + c2 * c3);
    assert(m.a.x == e.a.x && m.a.y == e.a.y && m.a.z == e.a.z);
    assert(m.b.x == e.b.x && m.b.y == e.b.y && m.b.z == e.b.z);
    assert(m.c.x == e.c.x && m.c.y == e.c.y && m.c.z == e.c.z);
}
pub proof fn lemma_r36(s4: real, c4: real, s5: real, c5: real, s6: real, c6: real)
    ensures mmul(mmul(rot_z(s4, c4), rot_y(s5, c5)), rot_z(s6, c6)) == r36c(s4, c4, s5, c5, s6, c6)
{
    lemma_zy(s4, c4, s5, c5);
    let p = mmul(rot_z(s4, c4), rot_y(s5, c5));
    let z = rot_z(s6, c6);
    assert(mcol(z, 0) == v3(c6, s6, 0real)); assert(mcol(z, 1) == v3(-s6, c6, 0real)); assert(mcol(z, 2) == v3(0real, 0real, 1real));
    lemma_vdot_unit(p.a); lemma_vdot_unit(p.b); lemma_vdot_unit(p.c);
    let m = mmul(p, z);
    let e = r36c(s4, c4, s5, c5, s6, c6);
    assert(m.a.x == (c4 * c5) * c6 + (-s4) * s6 + (c4 * s5) * 0real);
    assert((c4 * c5) * c6 + (-s4) * s6 == c4 * c5 * c6 - s4 * s6) by(nonlinear_arith);
    assert(m.a.y == (c4 * c5) * (-s6) + (-s4) * c6 + (c4 * s5) * 0real);
    assert((c4 * c5) * (-s6) + (-s4) * c6 == -c4 * c5 * s6 - s4 * c6) by(nonlinear_arith);
    assert(m.b.x == (s4 * c5) * c6 + c4 * s6 + (s4 * s5) * 0real);
    assert(m.b.y == (s4 * c5) * (-s6) + c4 * c6 + (s4 * s5) * 0real);
    assert((s4 * c5) * (-s6) + c4 * c6 == -s4 * c5 * s6 + c4 * c6) by(nonlinear_arith);
    assert(m.c.x == (-s5) * c6 + 0real * s6 + c5 * 0real);
    assert(m.c.y == (-s5) * (-s6) + 0real * c6 + c5 * 0real);
    assert((-s5) * (-s6) == s5 * s6) by(nonlinear_arith);
    assert((-s5) * c6 == -s5 * c6) by(nonlinear_arith);
    assert(m.a.x == e.a.x && m.a.y == e.a.y && m.a.z == e.a.z);
    assert(m.b.x == e.b.x && m.b.y == e.b.y && m.b.z == e.b.z);
    assert(m.c.x == e.c.x && m.c.y == e.c.y && m.c.z == e.c.z);
}
pub proof fn lemma_mscale_vec(k: real, m: M3, v: V3)
    ensures mvec(mscale(k, m), v) == vscale(k, mvec(m, v))
{
    // vdot(k*row, v) == k * vdot(row, v)
    lemma_assoc(k, m.a.x, v.x); lemma_assoc(k, m.a.y, v.y); lemma_assoc(k, m.a.z, v.z);
    lemma_assoc(k, m.b.x, v.x); lemma_assoc(k, m.b.y, v.y); lemma_assoc(k, m.b.z, v.z);
    lemma_assoc(k, m.c.x, v.x); lemma_assoc(k, m.c.y, v.y); lemma_assoc(k, m.c.z, v.z);
    lemma_dist3(m.a.x * v.x, m.a.y * v.y, m.a.z * v.z, k);
    lemma_dist3(m.b.x * v.x, m.b.y * v.y, m.b.z * v.z, k);
    lemma_dist3(m.c.x * v.x, m.c.y * v.y, m.c.z * v.z, k);
}
/// rotations about z leave vectors along z alone
pub proof fn lemma_rotz_z(s: real, c: real, h: real)
    ensures mvec(rot_z(s, c), v3(0real, 0real, h)) == v3(0real, 0real, h)
{
    let z = rot_z(s, c);
    assert(vdot(z.a, v3(0real, 0real, h)) == c * 0real + (-s) * 0real + 0real * h);
    assert(vdot(z.b, v3(0real, 0real, h)) == s * 0real + c * 0real + 0real * h);
    assert(vdot(z.c, v3(0real, 0real, h)) == 0real * 0real + 0real * 0real + 1real * h);
}

/// rotation part of the chain: ((((Rz1 Ry2) Ry3) Rz4) Ry5) Rz6 == r03c * r36c, and its last column equals that of the first five
pub proof fn lemma_fk_r(r2: M3, z4: M3, y5: M3, z6: M3, e03: M3, e36: M3)
    requires r2 == e03, mmul(mmul(z4, y5), z6) == e36
    ensures mmul(mmul(mmul(r2, z4), y5), z6) == mmul(e03, e36)
{
    hide(mmul);
    lemma_mmul_assoc(r2, z4, y5);
    lemma_mmul_assoc(r2, mmul(z4, y5), z6);
}
/// h4 * (R4 Rz6) * z == R4 * (0,0,h4)
pub proof fn lemma_fk_last(r4: M3, s6: real, c6: real, h4: real)
    ensures mvec(mscale(h4, mmul(r4, rot_z(s6, c6))), v3(0real, 0real, 1real)) == mvec(r4, v3(0real, 0real, h4))
{
    let z = v3(0real, 0real, 1real);
    lemma_mscale_vec(h4, mmul(r4, rot_z(s6, c6)), z);
    lemma_mvec_assoc(r4, rot_z(s6, c6), z);
    lemma_rotz_z(s6, c6, 1real);
    lemma_mvec_scale(r4, h4, z);
    assert(vscale(h4, z) == v3(0real, 0real, h4));
}
/// R2 Rz4 (0,0,h3) + R2 (a2,0,0) == R2 (a2,0,h3)
pub proof fn lemma_fk_wrist(r2: M3, s4: real, c4: real, a2: real, h3: real)
    ensures vadd(mvec(r2, v3(a2, 0real, 0real)), mvec(mmul(r2, rot_z(s4, c4)), v3(0real, 0real, h3))) == mvec(r2, v3(a2, 0real, h3))
{
    lemma_mvec_assoc(r2, rot_z(s4, c4), v3(0real, 0real, h3));
    lemma_rotz_z(s4, c4, h3);
    lemma_mvec_add(r2, v3(a2, 0real, 0real), v3(0real, 0real, h3));
    assert(vadd(v3(a2, 0real, 0real), v3(0real, 0real, h3)) == v3(a2, 0real, h3));
}
pub proof fn lemma_fact(a: real, b: real, c: real, d: real, e: real)
    ensures a * b * c - a * d * e == a * (b * c - d * e), a * b * c + a * d * e == a * (b * c + d * e)
{
    assert(a * b * c - a * d * e == a * (b * c - d * e)) by(nonlinear_arith);
    assert(a * b * c + a * d * e == a * (b * c + d * e)) by(nonlinear_arith);
}
/// r03c with the sums-of-angles factored out: c23 = cos(q2+q3), s23 = sin(q2+q3)
pub proof fn lemma_r03_factored(s1: real, c1: real, s2: real, c2: real, s3: real, c3: real)
    ensures ({
        let c23 = c2 * c3 - s2 * s3; let s23 = c2 * s3 + s2 * c3;
        r03c(s1, c1, s2, c2, s3, c3) == (M3 { a: v3(c1 * c23, -s1, c1 * s23), b: v3(s1 * c23, c1, s1 * s23), c: v3(-s23, 0real, c23) })
    })
{
    lemma_fact(c1, c2, c3, s2, s3); lemma_fact(c1, c2, s3, s2, c3);
    lemma_fact(s1, c2, c3, s2, s3); lemma_fact(s1, c2, s3, s2, c3);
    let c23 = c2 * c3 - s2 * s3; let s23 = c2 * s3 + s2 * c3;
    assert(-s2 * c3 - c2 * s3 == -s23) by(nonlinear_arith) requires s23 == c2 * s3 + s2 * c3;
    assert(-s2 * s3 + c2 * c3 == c23) by(nonlinear_arith) requires c23 == c2 * c3 - s2 * s3;
    let e = r03c(s1, c1, s2, c2, s3, c3);
    assert(e.a.x == c1 * c23 && e.a.y == -s1 && e.a.z == c1 * s23);
    assert(e.b.x == s1 * c23 && e.b.y == c1 && e.b.z == s1 * s23);
    assert(e.c.x == -s23 && e.c.y == 0real && e.c.z == c23);
}
pub proof fn lemma_lin2(k: real, p: real, a: real, q: real, h: real)
    ensures (k * p) * a + (k * q) * h == k * (a * p + h * q)
{
    assert((k * p) * a + (k * q) * h == k * (a * p + h * q)) by(nonlinear_arith);
}
/// r03c * (a2, 0, h3) in closed form
pub proof fn lemma_fk_w(s1: real, c1: real, s2: real, c2: real, s3: real, c3: real, a2: real, h3: real, kx: real, kz: real)
    requires
        kx == a2 * (c2 * c3 - s2 * s3) + h3 * (c2 * s3 + s2 * c3),
        kz == h3 * (c2 * c3 - s2 * s3) - a2 * (c2 * s3 + s2 * c3),
    ensures mvec(r03c(s1, c1, s2, c2, s3, c3), v3(a2, 0real, h3)) == v3(c1 * kx, s1 * kx, kz)
{
    lemma_r03_factored(s1, c1, s2, c2, s3, c3);
    let c23 = c2 * c3 - s2 * s3; let s23 = c2 * s3 + s2 * c3;
    let e = M3 { a: v3(c1 * c23, -s1, c1 * s23), b: v3(s1 * c23, c1, s1 * s23), c: v3(-s23, 0real, c23) };
    lemma_fk_w2(e, c1, s1, c23, s23, a2, h3, kx, kz);
}
proof fn lemma_fk_w2(e: M3, c1: real, s1: real, c23: real, s23: real, a2: real, h3: real, kx: real, kz: real)
    requires e == (M3 { a: v3(c1 * c23, -s1, c1 * s23), b: v3(s1 * c23, c1, s1 * s23), c: v3(-s23, 0real, c23) }),
             kx == a2 * c23 + h3 * s23, kz == h3 * c23 - a2 * s23,
    ensures mvec(e, v3(a2, 0real, h3)) == v3(c1 * kx, s1 * kx, kz)
{
    let w = mvec(e, v3(a2, 0real, h3));
    assert(w.x == (c1 * c23) * a2 + (-s1) * 0real + (c1 * s23) * h3);
    assert(w.y == (s1 * c23) * a2 + c1 * 0real + (s1 * s23) * h3);
    assert(w.z == (-s23) * a2 + 0real * 0real + c23 * h3);
    lemma_lin2(c1, c23, a2, s23, h3);
    lemma_lin2(s1, c23, a2, s23, h3);
    assert((-s23) * a2 + c23 * h3 == h3 * c23 - a2 * s23) by(nonlinear_arith);
}
pub proof fn lemma_arm_x(c1: real, s1: real, a1: real, b: real, s2: real, h2: real, kx: real)
    ensures c1 * a1 + (-s1) * b + (c1 * s2) * h2 + c1 * kx == (h2 * s2 + kx + a1) * c1 - b * s1,
            s1 * a1 + c1 * b + (s1 * s2) * h2 + s1 * kx == (h2 * s2 + kx + a1) * s1 + b * c1,
{
    lemma_dist3(h2 * s2, kx, a1, c1); lemma_dist3(h2 * s2, kx, a1, s1);
    assert((c1 * s2) * h2 == (h2 * s2) * c1) by(nonlinear_arith);
    assert((s1 * s2) * h2 == (h2 * s2) * s1) by(nonlinear_arith);
    lemma_comm(c1, a1); lemma_comm(s1, a1); lemma_comm(c1, kx); lemma_comm(s1, kx); lemma_comm(s1, b); lemma_comm(c1, b);
    assert((-s1) * b == -(b * s1)) by(nonlinear_arith);
}
/// (0,0,h1) + Rz1 (a1,b,0) + (Rz1 Ry2)(0,0,h2) + (c1 kx, s1 kx, kz) in the closed form used by the solver
pub proof fn lemma_fk_arm(s1: real, c1: real, s2: real, c2: real, a1: real, b: real, h1: real, h2: real, kx: real, kz: real)
    ensures ({
        let r0 = rot_z(s1, c1); let r1 = mmul(r0, rot_y(s2, c2));
        let t2 = vadd(vadd(v3(0real, 0real, h1), mvec(r0, v3(a1, b, 0real))), mvec(r1, v3(0real, 0real, h2)));
        let cx1 = h2 * s2 + kx + a1; let cz1 = h2 * c2 + kz;
        vadd(t2, v3(c1 * kx, s1 * kx, kz)) == v3(cx1 * c1 - b * s1, cx1 * s1 + b * c1, cz1 + h1)
    })
{
    let r0 = rot_z(s1, c1); let r1 = mmul(r0, rot_y(s2, c2));
    lemma_zy(s1, c1, s2, c2);
    lemma_fk_arm2(r0, r1, s1, c1, s2, c2, a1, b, h1, h2, kx, kz);
}
proof fn lemma_fk_arm2(r0: M3, r1: M3, s1: real, c1: real, s2: real, c2: real, a1: real, b: real, h1: real, h2: real, kx: real, kz: real)
    requires r0 == rot_z(s1, c1), r1 == (M3 { a: v3(c1 * c2, -s1, c1 * s2), b: v3(s1 * c2, c1, s1 * s2), c: v3(-s2, 0real, c2) })
    ensures ({
        let t2 = vadd(vadd(v3(0real, 0real, h1), mvec(r0, v3(a1, b, 0real))), mvec(r1, v3(0real, 0real, h2)));
        let cx1 = h2 * s2 + kx + a1; let cz1 = h2 * c2 + kz;
        vadd(t2, v3(c1 * kx, s1 * kx, kz)) == v3(cx1 * c1 - b * s1, cx1 * s1 + b * c1, cz1 + h1)
    })
{
    let u = mvec(r1, v3(0real, 0real, h2));
    assert(u.x == (c1 * c2) * 0real + (-s1) * 0real + (c1 * s2) * h2);
    assert(u.y == (s1 * c2) * 0real + c1 * 0real + (s1 * s2) * h2);
    assert(u.z == (-s2) * 0real + 0real * 0real + c2 * h2);
    let v = mvec(r0, v3(a1, b, 0real));
    assert(v.x == c1 * a1 + (-s1) * b + 0real * 0real);
    assert(v.y == s1 * a1 + c1 * b + 0real * 0real);
    assert(v.z == 0real * a1 + 0real * b + 1real * 0real);
    lemma_arm_x(c1, s1, a1, b, s2, h2, kx);
    lemma_comm(c2, h2);
    let cx1 = h2 * s2 + kx + a1;
    let cz1 = h2 * c2 + kz;
    let t2 = vadd(vadd(v3(0real, 0real, h1), v), u);
    let l = vadd(t2, v3(c1 * kx, s1 * kx, kz));
    assert(l.x == cx1 * c1 - b * s1 && l.y == cx1 * s1 + b * c1 && l.z == cz1 + h1);
}
/// an orthogonal matrix preserves the Euclidean norm: |R v|^2 == |v|^2
pub proof fn lemma_norm_preserved(r: M3, v: V3)
    requires proper(r)
    ensures vnorm2(mvec(r, v)) == vnorm2(v)
{
    // |Rv|^2 = (Rv).(Rv) = v . (R^T (R v)) = v . ((R^T R) v) = v . v
    let w = mvec(r, v);
    lemma_rowmatcol(w, r, v);                 // vdot(vecmat(w, r), v) == vdot(w, mvec(r, v)) == |Rv|^2
    // vecmat(w, r) == mvec(mtr(r), w)
    let rt = mtr(r);
    lemma_vdot_comm(w, mcol(r, 0)); lemma_vdot_comm(w, mcol(r, 1)); lemma_vdot_comm(w, mcol(r, 2));
    assert(vecmat(w, r) == mvec(rt, w));
    lemma_mvec_assoc(rt, r, v);               // mvec(mmul(rt, r), v) == mvec(rt, mvec(r, v))
    lemma_mid(r, v);
    assert(mvec(rt, w) == v);
}
/// wrist flip: Rz(q4 + pi) Ry(-q5) Rz(q6 - pi) == Rz(q4) Ry(q5) Rz(q6)   (sin and cos of q4, q6 negated, sin of q5 negated)
pub proof fn lemma_r36_flip(s4: real, c4: real, s5: real, c5: real, s6: real, c6: real)
    ensures r36c(-s4, -c4, -s5, c5, -s6, -c6) == r36c(s4, c4, s5, c5, s6, c6)
{
    let l = r36c(-s4, -c4, -s5, c5, -s6, -c6); let r = r36c(s4, c4, s5, c5, s6, c6);
    assert((-c4) * c5 * (-c6) - (-s4) * (-s6) == c4 * c5 * c6 - s4 * s6) by(nonlinear_arith);
    assert(-(-c4) * c5 * (-s6) - (-s4) * (-c6) == -c4 * c5 * s6 - s4 * c6) by(nonlinear_arith);
    assert((-c4) * (-s5) == c4 * s5) by(nonlinear_arith);
    assert((-s4) * c5 * (-c6) + (-c4) * (-s6) == s4 * c5 * c6 + c4 * s6) by(nonlinear_arith);
    assert(-(-s4) * c5 * (-s6) + (-c4) * (-c6) == -s4 * c5 * s6 + c4 * c6) by(nonlinear_arith);
    assert((-s4) * (-s5) == s4 * s5) by(nonlinear_arith);
    assert(-(-s5) * (-c6) == -s5 * c6) by(nonlinear_arith);
    assert((-s5) * (-s6) == s5 * s6) by(nonlinear_arith);
    assert(l.a == r.a && l.b == r.b && l.c == r.c);
}
/// the tool axis (third column of Rz(q4) Ry(q5) Rz(q6)) does not depend on q6 and is kept by the flip (q4 + pi, -q5)
pub proof fn lemma_r36_axis_flip(s4: real, c4: real, s5: real, c5: real, s6: real, c6: real, t6: real, d6: real)
    ensures mvec(r36c(-s4, -c4, -s5, c5, t6, d6), v3(0real, 0real, 1real)) == mvec(r36c(s4, c4, s5, c5, s6, c6), v3(0real, 0real, 1real))
{
    lemma_vdot_unit(r36c(-s4, -c4, -s5, c5, t6, d6).a); lemma_vdot_unit(r36c(-s4, -c4, -s5, c5, t6, d6).b); lemma_vdot_unit(r36c(-s4, -c4, -s5, c5, t6, d6).c);
    lemma_vdot_unit(r36c(s4, c4, s5, c5, s6, c6).a); lemma_vdot_unit(r36c(s4, c4, s5, c5, s6, c6).b); lemma_vdot_unit(r36c(s4, c4, s5, c5, s6, c6).c);
    assert((-c4) * (-s5) == c4 * s5) by(nonlinear_arith);
    assert((-s4) * (-s5) == s4 * s5) by(nonlinear_arith);
}
/// an orthogonal matrix preserves inner products: (R u).(R v) == u.v
pub proof fn lemma_dot_preserved(r: M3, u: V3, v: V3)
    requires proper(r)
    ensures vdot(mvec(r, u), mvec(r, v)) == vdot(u, v)
{
    // (Ru).(Rv) = ((Ru) R).v = (R^T (R u)).v = ((R^T R) u).v = u.v
    let w = mvec(r, u);
    lemma_rowmatcol(w, r, v);
    let rt = mtr(r);
    lemma_vdot_comm(w, mcol(r, 0)); lemma_vdot_comm(w, mcol(r, 1)); lemma_vdot_comm(w, mcol(r, 2));
    assert(vecmat(w, r) == mvec(rt, w));
    lemma_mvec_assoc(rt, r, u);
    lemma_mid(r, u);
    assert(mvec(rt, w) == u);
}
} // mod linalg
