// ---------------------------------------------------------------------------
// Module `pa`: shim for parry3d (TriMesh, AABB, distance / intersection queries), f32 comparisons,
// poses in f32, and the std HashMap key model for (u16, u16).  ASSUMED contracts.
//   dist(ta, a, tb, b)  : the surface distance parry3d::query::distance returns (>= 0)
//   touch(ta, a, tb, b) : what parry3d::query::intersection_test returns
//   AABB soundness      : a shape lies inside its bounding box, so two shapes whose boxes (one
//                         enlarged by r) do not overlap are more than r apart
// ---------------------------------------------------------------------------
pub mod pa {
use vstd::prelude::*;
use vstd::std_specs::cmp::*;
use core::cmp::Ordering;

// ---- f32: only comparisons and constants are needed --------------------------------------
pub uninterp spec fn rv32(x: f32) -> real;
pub uninterp spec fn fin32(x: f32) -> bool;
pub broadcast axiom fn ax_cmp32(a: f32, b: f32)
    ensures
        #![trigger <f32 as PartialOrdSpec<f32>>::partial_cmp_spec(&a, &b)]
        <f32 as PartialOrdSpec<f32>>::obeys_partial_cmp_spec(),
        fin32(a) && fin32(b) ==> <f32 as PartialOrdSpec<f32>>::partial_cmp_spec(&a, &b)
            == (if rv32(a) < rv32(b) { Some(Ordering::Less) } else if rv32(a) == rv32(b) { Some(Ordering::Equal) } else { Some(Ordering::Greater) });
pub broadcast axiom fn ax_eq32(a: f32, b: f32)
    ensures
        #![trigger <f32 as PartialEqSpec<f32>>::eq_spec(&a, &b)]
        <f32 as PartialEqSpec<f32>>::obeys_eq_spec(),
        fin32(a) && fin32(b) ==> <f32 as PartialEqSpec<f32>>::eq_spec(&a, &b) == (rv32(a) == rv32(b));
pub axiom fn ax_obeys32()
    ensures <f32 as PartialOrdSpec<f32>>::obeys_partial_cmp_spec(), <f32 as PartialEqSpec<f32>>::obeys_eq_spec();

// ---- opaque geometry ------------------------------------------------------------------------
#[verifier::external_body]
pub struct TriMesh { _p: u8 }
#[verifier::external_body]
#[derive(Clone, Copy)]
pub struct Iso32 { _p: [f32; 7] }        // nalgebra Isometry3<f32>
#[verifier::external_body]
pub struct Aabb { _p: [f32; 6] }

pub uninterp spec fn dist(ta: Iso32, a: TriMesh, tb: Iso32, b: TriMesh) -> real;
pub uninterp spec fn touch(ta: Iso32, a: TriMesh, tb: Iso32, b: TriMesh) -> bool;
pub uninterp spec fn nverts(m: TriMesh) -> nat;
pub broadcast axiom fn ax_dist(ta: Iso32, a: TriMesh, tb: Iso32, b: TriMesh)
    ensures #[trigger] dist(ta, a, tb, b) >= 0real, dist(ta, a, tb, b) == dist(tb, b, ta, a), touch(ta, a, tb, b) == touch(tb, b, ta, a);

impl TriMesh {
    #[verifier::external_body]
    pub fn vertices(&self) -> (r: &Vec<u8>) ensures r@.len() == nverts(*self) { unimplemented!() }
    #[verifier::external_body]
    pub fn local_aabb(&self) -> (r: Aabb) ensures r == local_aabb_s(*self) { unimplemented!() }
    #[verifier::external_body]
    pub fn aabb(&self, t: &Iso32) -> (r: Aabb) ensures r == aabb_s(*self, *t) { unimplemented!() }
}
pub uninterp spec fn local_aabb_s(m: TriMesh) -> Aabb;
pub uninterp spec fn aabb_s(m: TriMesh, t: Iso32) -> Aabb;
pub uninterp spec fn loosened_s(a: Aabb, r: f32) -> Aabb;
pub uninterp spec fn boxes_overlap(a: Aabb, b: Aabb) -> bool;
pub uninterp spec fn iso32_inv(a: Iso32) -> Iso32;
pub uninterp spec fn iso32_mul(a: Iso32, b: Iso32) -> Iso32;
impl Aabb {
    #[verifier::external_body]
    pub fn loosened(&self, r: f32) -> (o: Aabb) ensures o == loosened_s(*self, r) { unimplemented!() }
    #[verifier::external_body]
    pub fn intersects(&self, other: &Aabb) -> (o: bool) ensures o == boxes_overlap(*self, *other) { unimplemented!() }
}
impl Iso32 {
    #[verifier::external_body]
    pub fn inverse(&self) -> (r: Iso32) ensures r == iso32_inv(*self) { unimplemented!() }
    /// `a.inv_mul(&b)` (not used by the pinned tree): a deterministic function of both poses, otherwise unconstrained
    #[verifier::external_body]
    pub fn inv_mul(&self, rhs: &Iso32) -> (r: Iso32) ensures r == iso32_inv_mul_s(*self, *rhs) { unimplemented!() }
}
pub uninterp spec fn iso32_inv_mul_s(a: Iso32, b: Iso32) -> Iso32;
/// `a.inverse() * b` for f32 isometries (operator with a reference operand: rule S rewrites it to this call)
#[verifier::external_body]
pub fn iso32_compose(a: Iso32, b: &Iso32) -> (r: Iso32) ensures r == iso32_mul(a, *b) { unimplemented!() }

/// AABB soundness (geometry, assumed): the box of `sm` (local frame) enlarged by r does not overlap the box of `bg`
/// expressed in sm's frame  ==>  the two shapes are more than r apart
pub broadcast axiom fn ax_aabb_sound(sm: TriMesh, tsm: Iso32, bg: TriMesh, tbg: Iso32, r: f32)
    requires fin32(r), rv32(r) >= 0real,
             !#[trigger] boxes_overlap(loosened_s(local_aabb_s(sm), r), aabb_s(bg, iso32_mul(iso32_inv(tsm), tbg)))
    ensures dist(tsm, sm, tbg, bg) > rv32(r);

/// parry3d::query::intersection_test(..).expect(..) and distance(..).expect(..) (rule S rewrites the calls)
#[verifier::external_body]
pub fn query_intersection_test(ta: &Iso32, a: &TriMesh, tb: &Iso32, b: &TriMesh) -> (r: bool)
    ensures r == touch(*ta, *a, *tb, *b) { unimplemented!() }
#[verifier::external_body]
pub fn query_distance(ta: &Iso32, a: &TriMesh, tb: &Iso32, b: &TriMesh) -> (r: f32)
    ensures fin32(r), rv32(r) == dist(*ta, *a, *tb, *b) { unimplemented!() }

/// `joint_poses.map(|pose| pose.cast::<f32>())` (closure over an array: rule S routes it here); the f32 pose of a link is
/// a function of its f64 pose
pub uninterp spec fn cast32(p: super::na::Isometry3) -> Iso32;
#[verifier::external_body]
pub fn cast_poses(p: [super::na::Isometry3; 6]) -> (r: [Iso32; 6])
    ensures forall|k: int| 0 <= k < 6 ==> #[trigger] r[k] == cast32(p[k]) { unimplemented!() }

/// `pose.cast()` (nalgebra `Isometry3::<f64>::cast::<f32>()`): the f32 pose is a function of the f64 pose
impl super::na::Isometry3 {
    #[verifier::external_body]
    pub fn cast(&self) -> (r: Iso32) ensures r == cast32(*self) { unimplemented!() }
}
/// `(0..n).collect::<HashSet<usize>>()` (rule S routes it here)
#[verifier::external_body]
pub fn range_set(n: usize) -> (r: std::collections::HashSet<usize>)
    ensures r@ == below(n as int) { unimplemented!() }
/// the set {0, .., jt-1} of joint indices (definitional axiom: the set is characterised by its members)
pub uninterp spec fn below(jt: int) -> Set<usize>;
pub broadcast axiom fn ax_below(jt: int, k: usize)
    ensures #[trigger] below(jt).contains(k) <==> (k as int) < jt;
pub broadcast axiom fn ax_below_len(jt: int)
    requires 0 <= jt
    ensures (#[trigger] below(jt)).finite(), below(jt).len() == jt;

// ---- HashMap<(u16,u16), f32>: std key model for the tuple key (assumed) ----------------------------
pub broadcast axiom fn ax_key_model_u16_pair()
    ensures #[trigger] vstd::std_specs::hash::obeys_key_model::<(u16, u16)>();

pub broadcast group group_pa { ax_cmp32, ax_eq32, ax_dist, ax_aabb_sound, ax_key_model_u16_pair, ax_below, ax_below_len }
} // mod pa
