// ---------------------------------------------------------------------------
// Module `na`: shim for the nalgebra types the extracted code uses.  ASSUMED contracts
// (DESIGN.md 1.4): every method is `external_body` with a contract over a mathematical view:
//   Vector3 / Translation3 -> V3 (three reals),  Matrix3 / Rotation3 / UnitQuaternion -> M3 (3x3 reals),
//   Isometry3 -> Iso { r: M3, t: V3 } with  (a * b) = composition,  inverse() = group inverse.
// Type parameters are dropped by rule S (Isometry3<f64> -> Isometry3 etc.).
// ---------------------------------------------------------------------------
pub mod na {
use vstd::prelude::*;
use vstd::std_specs::ops::*;
use super::fl::*;

// ---- spec-level linear algebra over reals --------------------------------------------
pub struct V3 { pub x: real, pub y: real, pub z: real }
pub struct M3 { pub a: V3, pub b: V3, pub c: V3 }   // rows
pub struct Iso { pub r: M3, pub t: V3 }

pub open spec fn v3(x: real, y: real, z: real) -> V3 { V3 { x, y, z } }
pub open spec fn vadd(p: V3, q: V3) -> V3 { V3 { x: p.x + q.x, y: p.y + q.y, z: p.z + q.z } }
pub open spec fn vsub(p: V3, q: V3) -> V3 { V3 { x: p.x - q.x, y: p.y - q.y, z: p.z - q.z } }
pub open spec fn vscale(k: real, p: V3) -> V3 { V3 { x: k * p.x, y: k * p.y, z: k * p.z } }
pub open spec fn vdot(p: V3, q: V3) -> real { p.x * q.x + p.y * q.y + p.z * q.z }
pub open spec fn vnorm2(p: V3) -> real { vdot(p, p) }
pub open spec fn mrow(m: M3, i: int) -> V3 { if i == 0 { m.a } else if i == 1 { m.b } else { m.c } }
pub open spec fn vget(p: V3, j: int) -> real { if j == 0 { p.x } else if j == 1 { p.y } else { p.z } }
pub open spec fn mget(m: M3, i: int, j: int) -> real { vget(mrow(m, i), j) }
pub open spec fn mcol(m: M3, j: int) -> V3 { V3 { x: vget(m.a, j), y: vget(m.b, j), z: vget(m.c, j) } }
pub open spec fn mvec(m: M3, p: V3) -> V3 { V3 { x: vdot(m.a, p), y: vdot(m.b, p), z: vdot(m.c, p) } }
pub open spec fn mmul(m: M3, n: M3) -> M3 {
    M3 { a: V3 { x: vdot(m.a, mcol(n, 0)), y: vdot(m.a, mcol(n, 1)), z: vdot(m.a, mcol(n, 2)) },
         b: V3 { x: vdot(m.b, mcol(n, 0)), y: vdot(m.b, mcol(n, 1)), z: vdot(m.b, mcol(n, 2)) },
         c: V3 { x: vdot(m.c, mcol(n, 0)), y: vdot(m.c, mcol(n, 1)), z: vdot(m.c, mcol(n, 2)) } }
}
pub open spec fn mtr(m: M3) -> M3 { M3 { a: mcol(m, 0), b: mcol(m, 1), c: mcol(m, 2) } }
pub open spec fn mid() -> M3 { M3 { a: v3(1real, 0real, 0real), b: v3(0real, 1real, 0real), c: v3(0real, 0real, 1real) } }
pub open spec fn mscale(k: real, m: M3) -> M3 { M3 { a: vscale(k, m.a), b: vscale(k, m.b), c: vscale(k, m.c) } }
pub open spec fn mdet(m: M3) -> real {
    m.a.x * (m.b.y * m.c.z - m.b.z * m.c.y) - m.a.y * (m.b.x * m.c.z - m.b.z * m.c.x) + m.a.z * (m.b.x * m.c.y - m.b.y * m.c.x)
}
/// orthogonal matrix (rotation or reflection); what the round-trip lemmas need
pub open spec fn proper(m: M3) -> bool { mmul(m, mtr(m)) == mid() && mmul(mtr(m), m) == mid() }
pub open spec fn rot_z(s: real, c: real) -> M3 { M3 { a: v3(c, -s, 0real), b: v3(s, c, 0real), c: v3(0real, 0real, 1real) } }
pub open spec fn rot_y(s: real, c: real) -> M3 { M3 { a: v3(c, 0real, s), b: v3(0real, 1real, 0real), c: v3(-s, 0real, c) } }
pub open spec fn iso_mul(p: Iso, q: Iso) -> Iso { Iso { r: mmul(p.r, q.r), t: vadd(p.t, mvec(p.r, q.t)) } }
pub open spec fn iso_inv(p: Iso) -> Iso { Iso { r: mtr(p.r), t: vscale(-1real, mvec(mtr(p.r), p.t)) } }
pub open spec fn iso_id() -> Iso { Iso { r: mid(), t: v3(0real, 0real, 0real) } }

// ---- exec shim types --------------------------------------------------------------------
#[derive(Clone, Copy)]
pub struct Vector3 { pub x: f64, pub y: f64, pub z: f64 }
#[derive(Clone, Copy)]
pub struct Translation3 { pub vector: Vector3 }
#[verifier::external_body]
#[derive(Clone, Copy)]
pub struct UnitQuaternion { _q: [f64; 4] }
#[derive(Clone, Copy)]
pub struct Isometry3 { pub rotation: UnitQuaternion, pub translation: Translation3 }
#[verifier::external_body]
#[derive(Clone, Copy)]
pub struct Matrix3 { _m: [f64; 9] }
#[verifier::external_body]
#[derive(Clone, Copy)]
pub struct Rotation3 { _m: [f64; 9] }
#[derive(Clone, Copy)]
pub struct UnitVector3 { pub value: Vector3 }     // nalgebra Unit<Vector3<f64>>

impl Vector3 {
    pub open spec fn v(self) -> V3 { V3 { x: rv(self.x), y: rv(self.y), z: rv(self.z) } }
    pub open spec fn vfin(self) -> bool { fin(self.x) && fin(self.y) && fin(self.z) }
}
impl UnitQuaternion {
    /// rotation matrix of the quaternion (real entries) and whether all components are finite
    pub uninterp spec fn m(self) -> M3;
    pub uninterp spec fn qfin(self) -> bool;
}
impl Matrix3 {
    /// entries as floats
    pub uninterp spec fn e(self, i: int, j: int) -> f64;
    pub open spec fn mfin(self) -> bool { forall|i: int, j: int| 0 <= i < 3 && 0 <= j < 3 ==> fin(#[trigger] self.e(i, j)) }
    pub open spec fn m(self) -> M3 {
        M3 { a: v3(rv(self.e(0, 0)), rv(self.e(0, 1)), rv(self.e(0, 2))),
             b: v3(rv(self.e(1, 0)), rv(self.e(1, 1)), rv(self.e(1, 2))),
             c: v3(rv(self.e(2, 0)), rv(self.e(2, 1)), rv(self.e(2, 2))) }
    }
}
impl Rotation3 {
    pub uninterp spec fn e(self, i: int, j: int) -> f64;
    pub open spec fn mfin(self) -> bool { forall|i: int, j: int| 0 <= i < 3 && 0 <= j < 3 ==> fin(#[trigger] self.e(i, j)) }
    pub open spec fn m(self) -> M3 {
        M3 { a: v3(rv(self.e(0, 0)), rv(self.e(0, 1)), rv(self.e(0, 2))),
             b: v3(rv(self.e(1, 0)), rv(self.e(1, 1)), rv(self.e(1, 2))),
             c: v3(rv(self.e(2, 0)), rv(self.e(2, 1)), rv(self.e(2, 2))) }
    }
}
impl UnitVector3 {
    pub open spec fn v(self) -> V3 { self.value.v() }
    #[verifier::external_body]
    pub fn new_normalize(v: Vector3) -> (r: UnitVector3)
        ensures v.v() == v3(0real, 0real, 1real) && v.vfin() ==> r.value.vfin() && r.v() == v.v() { unimplemented!() }
    #[verifier::external_body]
    pub fn into_inner(self) -> (r: Vector3) ensures r == self.value { unimplemented!() }
}
impl Isometry3 {
    pub open spec fn view(self) -> Iso { Iso { r: self.rotation.m(), t: self.translation.vector.v() } }
    /// all components finite and the rotation is a proper rotation
    pub open spec fn wf(self) -> bool { self.rotation.qfin() && self.translation.vector.vfin() && proper(self.rotation.m()) }
}

// ---- constructors / accessors -----------------------------------------------------------
impl Vector3 {
    #[verifier::external_body]
    pub fn new(x: f64, y: f64, z: f64) -> (r: Vector3) ensures r.x == x, r.y == y, r.z == z { unimplemented!() }
    #[verifier::external_body]
    pub fn z_axis() -> (r: UnitVector3) ensures r.value.vfin(), r.v() == v3(0real, 0real, 1real) { unimplemented!() }
    #[verifier::external_body]
    pub fn y_axis() -> (r: UnitVector3) ensures r.value.vfin(), r.v() == v3(0real, 1real, 0real) { unimplemented!() }
    /// Euclidean norm (idealised: exact square root)
    #[verifier::external_body]
    pub fn norm(&self) -> (r: f64)
        ensures r == norm_s(*self),
    { unimplemented!() }
    /// squared norm and dot product: not used by the pinned tree; deterministic functions of the operands, otherwise
    /// UNCONSTRAINED, so that a change introducing them fails the obligations it breaks instead of leaving the unit undecided
    #[verifier::external_body]
    pub fn norm_squared(&self) -> (r: f64) ensures r == norm2_s(*self) { unimplemented!() }
    #[verifier::external_body]
    pub fn try_normalize(&self, eps: f64) -> (r: Option<Vector3>) ensures r == try_normalize_s(*self, eps) { unimplemented!() }
    #[verifier::external_body]
    pub fn zeros() -> (r: Vector3) ensures r.x == 0.0f64, r.y == 0.0f64, r.z == 0.0f64 { unimplemented!() }
    #[verifier::external_body]
    pub fn dot(&self, other: &Vector3) -> (r: f64) ensures r == dot_s(*self, *other) { unimplemented!() }
}
pub uninterp spec fn norm2_s(v: Vector3) -> f64;
pub uninterp spec fn try_normalize_s(v: Vector3, eps: f64) -> Option<Vector3>;
pub uninterp spec fn dot_s(a: Vector3, b: Vector3) -> f64;
impl Translation3 {
    #[verifier::external_body]
    pub fn new(x: f64, y: f64, z: f64) -> (r: Translation3) ensures r.vector.x == x, r.vector.y == y, r.vector.z == z { unimplemented!() }
    #[verifier::external_body]
    pub fn from(v: Vector3) -> (r: Translation3) ensures r.vector == v { unimplemented!() }
}
impl Isometry3 {
    #[verifier::external_body]
    pub fn from_parts(translation: Translation3, rotation: UnitQuaternion) -> (r: Isometry3)
        ensures r.translation == translation, r.rotation == rotation { unimplemented!() }
    #[verifier::external_body]
    pub fn inverse(&self) -> (r: Isometry3)
        ensures r == iso_inv_s(*self) { unimplemented!() }
}
impl UnitQuaternion {
    #[verifier::external_body]
    pub fn to_rotation_matrix(&self) -> (r: Rotation3)
        ensures self.qfin() ==> r.mfin() && r.m() == self.m() { unimplemented!() }
    /// `from_rotation_matrix` of a proper ROTATION (orthogonal, determinant +1) reproduces it (nalgebra; assumed).  The hypothesis is
    /// part of the contract: for any other matrix nalgebra returns some unit quaternion and nothing is claimed.
    #[verifier::external_body]
    pub fn from_rotation_matrix(rot: &Rotation3) -> (r: UnitQuaternion)
        ensures rot.mfin() && proper(rot.m()) && mdet(rot.m()) == 1real ==> r.qfin() && r.m() == rot.m(), r == quat_of_rot_s(*rot) { unimplemented!() }
    #[verifier::external_body]
    pub fn from_axis_angle(axis: &UnitVector3, angle: f64) -> (r: UnitQuaternion)
        ensures fin(angle) ==> r.qfin()
            && (axis.v() == v3(0real, 0real, 1real) ==> r.m() == rot_z(rsin(rv(angle)), rcos(rv(angle))))
            && (axis.v() == v3(0real, 1real, 0real) ==> r.m() == rot_y(rsin(rv(angle)), rcos(rv(angle))))
    { unimplemented!() }
    #[verifier::external_body]
    pub fn identity() -> (r: UnitQuaternion) ensures r.qfin(), r.m() == mid() { unimplemented!() }
    /// angle between two orientations; its spec is an uninterpreted non-negative real
    #[verifier::external_body]
    pub fn angle_to(&self, other: &UnitQuaternion) -> (r: f64)
        ensures self.qfin() && other.qfin() ==> fin(r) && rv(r) == angle_between(self.m(), other.m()) && rv(r) >= 0real,
    { unimplemented!() }
}
pub uninterp spec fn angle_between(a: M3, b: M3) -> real;
/// the values nalgebra's conversions return, as (deterministic) functions of their argument
pub uninterp spec fn quat_of_rot_s(r: Rotation3) -> UnitQuaternion;
pub uninterp spec fn rot_of_mat_s(m: Matrix3) -> Rotation3;
pub uninterp spec fn norm_s(v: Vector3) -> f64;
pub broadcast axiom fn ax_norm(v: Vector3)
    ensures
        #![trigger norm_s(v)]
        v.vfin() ==> fin(norm_s(v)) && rv(norm_s(v)) >= 0real && rv(norm_s(v)) * rv(norm_s(v)) == vnorm2(v.v()),
        !v.vfin() ==> !fin(norm_s(v));

impl Rotation3 {
    #[verifier::external_body]
    pub fn from_matrix_unchecked(m: Matrix3) -> (r: Rotation3)
        ensures forall|i: int, j: int| r.e(i, j) == m.e(i, j), r == rot_of_mat_s(m) { unimplemented!() }
    /// rule R10: `rot[(i, j)]` is rewritten to `rot.at(i, j)`
    #[verifier::external_body]
    pub fn at(&self, i: usize, j: usize) -> (r: f64)
        requires i < 3, j < 3
        ensures r == self.e(i as int, j as int) { unimplemented!() }
    #[verifier::external_body]
    pub fn transform_vector(&self, v: &UnitVector3) -> (r: Vector3)
        ensures self.mfin() ==> r.vfin() && r.v() == mvec(self.m(), v.v()) { unimplemented!() }
}
impl Matrix3 {
    #[verifier::external_body]
    pub fn new(m11: f64, m12: f64, m13: f64, m21: f64, m22: f64, m23: f64, m31: f64, m32: f64, m33: f64) -> (r: Matrix3)
        ensures r.e(0, 0) == m11, r.e(0, 1) == m12, r.e(0, 2) == m13,
                r.e(1, 0) == m21, r.e(1, 1) == m22, r.e(1, 2) == m23,
                r.e(2, 0) == m31, r.e(2, 1) == m32, r.e(2, 2) == m33,
    { unimplemented!() }
}

// ---- operators ------------------------------------------------------------------------------
// Verus attaches contracts to overloaded operators through the *SpecImpl traits: `a * b` ensures
// r == a.mul_spec(b).  The spec results are uninterpreted; the (assumed) axioms below give their views.
// Operators with a REFERENCE operand (`&a - b`, `a * &b`) crash this Verus version; the units that
// need them declare a substitution (rule S) that dereferences the Copy operand.
pub uninterp spec fn mat_mul_s(a: Matrix3, b: Matrix3) -> Matrix3;
pub uninterp spec fn mat_scale_s(k: f64, b: Matrix3) -> Matrix3;
// (components are separate f64-valued functions: Verus knows the type of a field only then)
pub uninterp spec fn mat_vec_s_c(a: Matrix3, v: Vector3, i: int) -> f64;
pub open spec fn mat_vec_s(a: Matrix3, v: Vector3) -> Vector3 { Vector3 { x: mat_vec_s_c(a, v, 0), y: mat_vec_s_c(a, v, 1), z: mat_vec_s_c(a, v, 2) } }
// (components are separate f64-valued functions: Verus knows the type of a field only then)
pub uninterp spec fn vec_add_s_c(a: Vector3, b: Vector3, i: int) -> f64;
pub open spec fn vec_add_s(a: Vector3, b: Vector3) -> Vector3 { Vector3 { x: vec_add_s_c(a, b, 0), y: vec_add_s_c(a, b, 1), z: vec_add_s_c(a, b, 2) } }
// (components are separate f64-valued functions: Verus knows the type of a field only then)
pub uninterp spec fn vec_sub_s_c(a: Vector3, b: Vector3, i: int) -> f64;
pub open spec fn vec_sub_s(a: Vector3, b: Vector3) -> Vector3 { Vector3 { x: vec_sub_s_c(a, b, 0), y: vec_sub_s_c(a, b, 1), z: vec_sub_s_c(a, b, 2) } }
// (components are separate f64-valued functions: Verus knows the type of a field only then)
pub uninterp spec fn vec_scale_s_c(k: f64, b: Vector3, i: int) -> f64;
pub open spec fn vec_scale_s(k: f64, b: Vector3) -> Vector3 { Vector3 { x: vec_scale_s_c(k, b, 0), y: vec_scale_s_c(k, b, 1), z: vec_scale_s_c(k, b, 2) } }
pub uninterp spec fn iso_mul_s(a: Isometry3, b: Isometry3) -> Isometry3;
pub uninterp spec fn iso_inv_s(a: Isometry3) -> Isometry3;
/// nalgebra `Isometry3 * Translation3` (tool.rs: LinearAxis, Gantry): the isometry composed with a pure translation
pub uninterp spec fn iso_mul_tr_s(a: Isometry3, t: Translation3) -> Isometry3;
/// a pure translation as a rigid motion
pub open spec fn tr_iso(t: V3) -> Iso { Iso { r: mid(), t } }

impl core::ops::Mul<Matrix3> for Matrix3 { type Output = Matrix3; #[verifier::external_body] fn mul(self, rhs: Matrix3) -> Matrix3 { unimplemented!() } }
impl MulSpecImpl<Matrix3> for Matrix3 {
    open spec fn obeys_mul_spec() -> bool { true }
    open spec fn mul_req(self, rhs: Matrix3) -> bool { true }
    open spec fn mul_spec(self, rhs: Matrix3) -> Matrix3 { mat_mul_s(self, rhs) }
}
impl core::ops::Mul<Matrix3> for f64 { type Output = Matrix3; #[verifier::external_body] fn mul(self, rhs: Matrix3) -> Matrix3 { unimplemented!() } }
impl MulSpecImpl<Matrix3> for f64 {
    open spec fn obeys_mul_spec() -> bool { true }
    open spec fn mul_req(self, rhs: Matrix3) -> bool { true }
    open spec fn mul_spec(self, rhs: Matrix3) -> Matrix3 { mat_scale_s(self, rhs) }
}
impl core::ops::Mul<Vector3> for Matrix3 { type Output = Vector3; #[verifier::external_body] fn mul(self, rhs: Vector3) -> Vector3 { unimplemented!() } }
impl MulSpecImpl<Vector3> for Matrix3 {
    open spec fn obeys_mul_spec() -> bool { true }
    open spec fn mul_req(self, rhs: Vector3) -> bool { true }
    open spec fn mul_spec(self, rhs: Vector3) -> Vector3 { mat_vec_s(self, rhs) }
}
impl core::ops::Mul<Vector3> for f64 { type Output = Vector3; #[verifier::external_body] fn mul(self, rhs: Vector3) -> Vector3 { unimplemented!() } }
impl MulSpecImpl<Vector3> for f64 {
    open spec fn obeys_mul_spec() -> bool { true }
    open spec fn mul_req(self, rhs: Vector3) -> bool { true }
    open spec fn mul_spec(self, rhs: Vector3) -> Vector3 { vec_scale_s(self, rhs) }
}
impl core::ops::Add<Vector3> for Vector3 { type Output = Vector3; #[verifier::external_body] fn add(self, rhs: Vector3) -> Vector3 { unimplemented!() } }
impl AddSpecImpl<Vector3> for Vector3 {
    open spec fn obeys_add_spec() -> bool { true }
    open spec fn add_req(self, rhs: Vector3) -> bool { true }
    open spec fn add_spec(self, rhs: Vector3) -> Vector3 { vec_add_s(self, rhs) }
}
impl core::ops::Sub<Vector3> for Vector3 { type Output = Vector3; #[verifier::external_body] fn sub(self, rhs: Vector3) -> Vector3 { unimplemented!() } }
impl SubSpecImpl<Vector3> for Vector3 {
    open spec fn obeys_sub_spec() -> bool { true }
    open spec fn sub_req(self, rhs: Vector3) -> bool { true }
    open spec fn sub_spec(self, rhs: Vector3) -> Vector3 { vec_sub_s(self, rhs) }
}
impl core::ops::Mul<Isometry3> for Isometry3 { type Output = Isometry3; #[verifier::external_body] fn mul(self, rhs: Isometry3) -> Isometry3 { unimplemented!() } }
impl MulSpecImpl<Isometry3> for Isometry3 {
    open spec fn obeys_mul_spec() -> bool { true }
    open spec fn mul_req(self, rhs: Isometry3) -> bool { true }
    open spec fn mul_spec(self, rhs: Isometry3) -> Isometry3 { iso_mul_s(self, rhs) }
}
impl core::ops::Mul<Translation3> for Isometry3 { type Output = Isometry3; #[verifier::external_body] fn mul(self, rhs: Translation3) -> Isometry3 { unimplemented!() } }
impl MulSpecImpl<Translation3> for Isometry3 {
    open spec fn obeys_mul_spec() -> bool { true }
    open spec fn mul_req(self, rhs: Translation3) -> bool { true }
    open spec fn mul_spec(self, rhs: Translation3) -> Isometry3 { iso_mul_tr_s(self, rhs) }
}
// inverses of the parts of an isometry and the product Isometry3 * UnitQuaternion (not used by tool.rs / frame.rs in the pinned
// tree): deterministic, otherwise unconstrained - a change that composes a pose "by parts" fails the wrapper contracts
pub uninterp spec fn quat_inv_s(a: UnitQuaternion) -> UnitQuaternion;
pub uninterp spec fn tr_inv_s(a: Translation3) -> Translation3;
pub uninterp spec fn iso_mul_q_s(a: Isometry3, q: UnitQuaternion) -> Isometry3;
pub uninterp spec fn rotation_to_s(a: UnitQuaternion, b: UnitQuaternion) -> UnitQuaternion;
pub uninterp spec fn quat_angle1_s(a: UnitQuaternion) -> f64;
pub uninterp spec fn euler_s(a: UnitQuaternion) -> (f64, f64, f64);
impl UnitQuaternion {
    #[verifier::external_body]
    pub fn inverse(&self) -> (r: UnitQuaternion) ensures r == quat_inv_s(*self) { unimplemented!() }
    #[verifier::external_body]
    pub fn rotation_to(&self, other: &UnitQuaternion) -> (r: UnitQuaternion) ensures r == rotation_to_s(*self, *other) { unimplemented!() }
    #[verifier::external_body]
    pub fn euler_angles(&self) -> (r: (f64, f64, f64)) ensures r == euler_s(*self) { unimplemented!() }
}
impl Translation3 {
    #[verifier::external_body]
    pub fn inverse(&self) -> (r: Translation3) ensures r == tr_inv_s(*self) { unimplemented!() }
}
impl core::ops::Mul<UnitQuaternion> for Isometry3 { type Output = Isometry3; #[verifier::external_body] fn mul(self, rhs: UnitQuaternion) -> Isometry3 { unimplemented!() } }
impl MulSpecImpl<UnitQuaternion> for Isometry3 {
    open spec fn obeys_mul_spec() -> bool { true }
    open spec fn mul_req(self, rhs: UnitQuaternion) -> bool { true }
    open spec fn mul_spec(self, rhs: UnitQuaternion) -> Isometry3 { iso_mul_q_s(self, rhs) }
}
impl core::ops::Deref for UnitVector3 { type Target = Vector3; #[verifier::external_body] fn deref(&self) -> (r: &Vector3) ensures *r == self.value { unimplemented!() } }

// ---- points (frame.rs) ------------------------------------------------------------------------
#[derive(Clone, Copy)]
pub struct Point3 { pub x: f64, pub y: f64, pub z: f64 }
impl Point3 {
    pub open spec fn v(self) -> V3 { V3 { x: rv(self.x), y: rv(self.y), z: rv(self.z) } }
    pub open spec fn pfin(self) -> bool { fin(self.x) && fin(self.y) && fin(self.z) }
}
pub uninterp spec fn pt_sub_c(a: Point3, b: Point3, i: int) -> f64;
pub open spec fn pt_sub_s(a: Point3, b: Point3) -> Vector3 { Vector3 { x: pt_sub_c(a, b, 0), y: pt_sub_c(a, b, 1), z: pt_sub_c(a, b, 2) } }
impl core::ops::Sub<Point3> for Point3 { type Output = Vector3; #[verifier::external_body] fn sub(self, rhs: Point3) -> Vector3 { unimplemented!() } }
impl SubSpecImpl<Point3> for Point3 {
    open spec fn obeys_sub_spec() -> bool { true }
    open spec fn sub_req(self, rhs: Point3) -> bool { true }
    open spec fn sub_spec(self, rhs: Point3) -> Vector3 { pt_sub_s(self, rhs) }
}
pub broadcast axiom fn ax_pt_sub(a: Point3, b: Point3)
    ensures
        #![trigger pt_sub_s(a, b)]
        a.pfin() && b.pfin() ==> pt_sub_s(a, b).vfin() && pt_sub_s(a, b).v() == vsub(a.v(), b.v());
pub open spec fn vcross(p: V3, q: V3) -> V3 { V3 { x: p.y * q.z - p.z * q.y, y: p.z * q.x - p.x * q.z, z: p.x * q.y - p.y * q.x } }
pub uninterp spec fn cross_c(a: Vector3, b: Vector3, i: int) -> f64;
pub open spec fn cross_s(a: Vector3, b: Vector3) -> Vector3 { Vector3 { x: cross_c(a, b, 0), y: cross_c(a, b, 1), z: cross_c(a, b, 2) } }
pub uninterp spec fn normalize_c(a: Vector3, i: int) -> f64;
pub open spec fn normalize_s(a: Vector3) -> Vector3 { Vector3 { x: normalize_c(a, 0), y: normalize_c(a, 1), z: normalize_c(a, 2) } }
pub broadcast axiom fn ax_cross(a: Vector3, b: Vector3)
    ensures
        #![trigger cross_s(a, b)]
        a.vfin() && b.vfin() ==> cross_s(a, b).vfin() && cross_s(a, b).v() == vcross(a.v(), b.v());
impl Vector3 {
    #[verifier::external_body]
    pub fn cross(&self, other: &Vector3) -> (r: Vector3) ensures r == cross_s(*self, *other) { unimplemented!() }
    #[verifier::external_body]
    pub fn normalize(&self) -> (r: Vector3) ensures r == normalize_s(*self) { unimplemented!() }
}
pub uninterp spec fn from_columns_s(a: Vector3, b: Vector3, c: Vector3) -> Matrix3;
pub uninterp spec fn transpose_s(m: Matrix3) -> Matrix3;
pub uninterp spec fn transform_point_s(q: UnitQuaternion, p: Point3) -> Point3;
impl Matrix3 {
    #[verifier::external_body]
    pub fn from_columns(cols: &[Vector3; 3]) -> (r: Matrix3) ensures r == from_columns_s(cols[0], cols[1], cols[2]) { unimplemented!() }
    #[verifier::external_body]
    pub fn transpose(&self) -> (r: Matrix3) ensures r == transpose_s(*self) { unimplemented!() }
}
impl UnitQuaternion {
    #[verifier::external_body]
    pub fn transform_point(&self, p: &Point3) -> (r: Point3) ensures r == transform_point_s(*self, *p) { unimplemented!() }
}

// ---- frame.rs (C17): ASSUMED nalgebra contracts over the real-valued view (M2: exact arithmetic) ----------
/// `v.normalize()` == v / |v| for a vector of non-zero length (stated without division: |v| * result == v)
pub broadcast axiom fn ax_normalize(a: Vector3)
    ensures
        #![trigger normalize_s(a)]
        a.vfin() && rv(norm_s(a)) != 0real ==> normalize_s(a).vfin() && vscale(rv(norm_s(a)), normalize_s(a).v()) == a.v();
/// `Matrix3::from_columns(&[a, b, c])`: the matrix whose COLUMNS are a, b, c
pub broadcast axiom fn ax_from_columns(a: Vector3, b: Vector3, c: Vector3)
    ensures
        #![trigger from_columns_s(a, b, c)]
        a.vfin() && b.vfin() && c.vfin() ==> from_columns_s(a, b, c).mfin() && from_columns_s(a, b, c).m() == mtr(M3 { a: a.v(), b: b.v(), c: c.v() });
pub broadcast axiom fn ax_transpose(m: Matrix3)
    ensures
        #![trigger transpose_s(m)]
        m.mfin() ==> transpose_s(m).mfin() && transpose_s(m).m() == mtr(m.m());
/// `Rotation3::from_matrix_unchecked(m)` keeps the entries (spec-level restatement of the exec contract above)
pub broadcast axiom fn ax_rot_of_mat(m: Matrix3)
    ensures
        #![trigger rot_of_mat_s(m)]
        forall|i: int, j: int| rot_of_mat_s(m).e(i, j) == m.e(i, j);
/// `UnitQuaternion::from_rotation_matrix(r)` reproduces the matrix of a proper rotation: orthogonal, determinant +1 (spec-level
/// restatement of the exec contract above; both hypotheses are PROVED at every use)
pub broadcast axiom fn ax_quat_of_rot(r: Rotation3)
    ensures
        #![trigger quat_of_rot_s(r)]
        r.mfin() && proper(r.m()) && mdet(r.m()) == 1real ==> quat_of_rot_s(r).qfin() && quat_of_rot_s(r).m() == r.m();
/// `q.transform_point(&p)` == R(q) p
pub broadcast axiom fn ax_transform_point(q: UnitQuaternion, p: Point3)
    ensures
        #![trigger transform_point_s(q, p)]
        q.qfin() && p.pfin() ==> transform_point_s(q, p).pfin() && transform_point_s(q, p).v() == mvec(q.m(), p.v());
pub broadcast group group_na_frame {
    ax_normalize, ax_from_columns, ax_transpose, ax_rot_of_mat, ax_quat_of_rot, ax_transform_point,
}

pub broadcast axiom fn ax_mat_mul(a: Matrix3, b: Matrix3)
    requires a.mfin(), b.mfin()
    ensures (#[trigger] mat_mul_s(a, b)).mfin(), mat_mul_s(a, b).m() == mmul(a.m(), b.m());
pub broadcast axiom fn ax_mat_scale(k: f64, b: Matrix3)
    requires fin(k), b.mfin()
    ensures (#[trigger] mat_scale_s(k, b)).mfin(), mat_scale_s(k, b).m() == mscale(rv(k), b.m());
pub broadcast axiom fn ax_mat_vec(a: Matrix3, v: Vector3)
    requires a.mfin(), v.vfin()
    ensures (#[trigger] mat_vec_s(a, v)).vfin(), mat_vec_s(a, v).v() == mvec(a.m(), v.v());
pub broadcast axiom fn ax_vec_add(a: Vector3, b: Vector3)
    requires a.vfin(), b.vfin()
    ensures (#[trigger] vec_add_s(a, b)).vfin(), vec_add_s(a, b).v() == vadd(a.v(), b.v());
pub broadcast axiom fn ax_vec_sub(a: Vector3, b: Vector3)
    ensures
        #![trigger vec_sub_s(a, b)]
        a.vfin() && b.vfin() ==> vec_sub_s(a, b).vfin() && vec_sub_s(a, b).v() == vsub(a.v(), b.v()),
        !(a.vfin() && b.vfin()) ==> !vec_sub_s(a, b).vfin();
pub broadcast axiom fn ax_vec_scale(k: f64, b: Vector3)
    requires fin(k), b.vfin()
    ensures (#[trigger] vec_scale_s(k, b)).vfin(), vec_scale_s(k, b).v() == vscale(rv(k), b.v());
pub broadcast axiom fn ax_iso_mul(a: Isometry3, b: Isometry3)
    requires a.wf(), b.wf()
    ensures (#[trigger] iso_mul_s(a, b)).wf(), iso_mul_s(a, b).view() == iso_mul(a.view(), b.view());

pub broadcast axiom fn ax_iso_inv(a: Isometry3)
    requires a.wf()
    ensures (#[trigger] iso_inv_s(a)).wf(), iso_inv_s(a).view() == iso_inv(a.view());

pub broadcast axiom fn ax_iso_mul_tr(a: Isometry3, t: Translation3)
    requires a.wf(), t.vector.vfin()
    ensures (#[trigger] iso_mul_tr_s(a, t)).wf(), iso_mul_tr_s(a, t).view() == iso_mul(a.view(), tr_iso(t.vector.v()));

pub open spec fn iso_wf(p: Iso) -> bool { proper(p.r) }

pub broadcast group group_na {
    ax_mat_mul, ax_mat_scale, ax_mat_vec, ax_vec_add, ax_vec_sub, ax_vec_scale, ax_iso_mul, ax_iso_inv, ax_iso_mul_tr, ax_norm, ax_pt_sub, ax_cross,
}

} // mod na
