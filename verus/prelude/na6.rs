// ---------------------------------------------------------------------------
// Module `na6`: ASSUMED shim of the nalgebra items src/jacobian.rs uses (Matrix6, Vector6, SVD,
// quaternion product / inverse / scaled_axis, Vector3 / f64).  Every function here is a contract of
// nalgebra taken on trust; the spec results are uninterpreted functions of the arguments, the only
// algebraic facts are the two (definitional) axioms about inverses at the end.
// ---------------------------------------------------------------------------
pub mod na6 {
use vstd::prelude::*;
use vstd::std_specs::ops::*;
use super::fl::*;
use super::na::*;

#[verifier::external_body]
#[derive(Clone, Copy)]
pub struct Matrix6 { _m: [f64; 36] }
/// nalgebra Vector6<f64>: six components, `v[i]` reads component i
#[derive(Clone, Copy)]
pub struct Vector6 { pub c: [f64; 6] }
#[verifier::external_body]
pub struct SVD { _p: () }

pub uninterp spec fn m6_at(m: Matrix6, i: int, j: int) -> f64;
pub uninterp spec fn m6_transpose_s(m: Matrix6) -> Matrix6;
pub uninterp spec fn m6_mv_c(m: Matrix6, v: Vector6, i: int) -> f64;
pub open spec fn m6_mv(m: Matrix6, v: Vector6) -> Vector6 {
    Vector6 { c: [m6_mv_c(m, v, 0), m6_mv_c(m, v, 1), m6_mv_c(m, v, 2), m6_mv_c(m, v, 3), m6_mv_c(m, v, 4), m6_mv_c(m, v, 5)] }
}
pub uninterp spec fn m6_set3(m: Matrix6, row: int, col: int, v: Vector3) -> Matrix6;
/// g is what `try_inverse` returns for m (a two-sided inverse, up to rounding)
pub uninterp spec fn m6_is_inverse(g: Matrix6, m: Matrix6) -> bool;
/// g is what SVD::pseudo_inverse(eps) returns for m
pub uninterp spec fn m6_is_pinv(g: Matrix6, m: Matrix6, eps: f64) -> bool;
/// what `try_inverse` returns for m (None: nalgebra found the matrix singular) - a deterministic function of the matrix
pub uninterp spec fn try_inverse_s(m: Matrix6) -> Option<Matrix6>;
/// what `SVD::new(m, true, true).pseudo_inverse(eps)` returns (None: an error) - a deterministic function of matrix and cut-off
pub uninterp spec fn pinv_s(m: Matrix6, eps: f64) -> Option<Matrix6>;
pub uninterp spec fn svd_of(s: SVD) -> Matrix6;
pub uninterp spec fn quat_mul_s(a: UnitQuaternion, b: UnitQuaternion) -> UnitQuaternion;
pub uninterp spec fn scaled_axis_c(a: UnitQuaternion, i: int) -> f64;
/// rotation vector (axis * angle) of a unit quaternion
pub open spec fn scaled_axis_s(a: UnitQuaternion) -> Vector3 { Vector3 { x: scaled_axis_c(a, 0), y: scaled_axis_c(a, 1), z: scaled_axis_c(a, 2) } }
pub uninterp spec fn vec_div_s_c(a: Vector3, k: f64, i: int) -> f64;
pub open spec fn vec_div_s(a: Vector3, k: f64) -> Vector3 { Vector3 { x: vec_div_s_c(a, k, 0), y: vec_div_s_c(a, k, 1), z: vec_div_s_c(a, k, 2) } }

pub open spec fn v6(a: f64, b: f64, c: f64, d: f64, e: f64, f: f64) -> Vector6 { Vector6 { c: [a, b, c, d, e, f] } }
impl Vector6 {
    #[verifier::external_body]
    pub fn new(a: f64, b: f64, c: f64, d: f64, e: f64, f: f64) -> (r: Vector6)
        ensures r == v6(a, b, c, d, e, f) { unimplemented!() }
    /// rule S: `v[i]` on a Vector6
    #[verifier::external_body]
    pub fn at(&self, i: usize) -> (r: f64) requires i < 6 ensures r == self.c[i as int] { unimplemented!() }
}
impl Matrix6 {
    #[verifier::external_body]
    pub fn zeros() -> (r: Matrix6)
        ensures forall|i: int, j: int| 0 <= i < 6 && 0 <= j < 6 ==> #[trigger] m6_at(r, i, j) == 0.0f64 { unimplemented!() }
    #[verifier::external_body]
    pub fn try_inverse(self) -> (r: Option<Matrix6>)
        ensures r == try_inverse_s(self), r matches Some(g) ==> m6_is_inverse(g, self) { unimplemented!() }
    #[verifier::external_body]
    pub fn transpose(&self) -> (r: Matrix6) ensures r == m6_transpose_s(*self) { unimplemented!() }
    /// rule S: `m.fixed_view_mut::<3, 1>(row, col).copy_from(&v)`: writes v into rows row..row+3 of column col
    #[verifier::external_body]
    pub fn set_col3(&mut self, row: usize, col: usize, v: &Vector3)
        requires row + 3 <= 6, col < 6
        ensures *final(self) == m6_set3(*old(self), row as int, col as int, *v) { unimplemented!() }
}
pub broadcast axiom fn ax_m6_set3(m: Matrix6, row: int, col: int, v: Vector3, i: int, j: int)
    requires 0 <= row, row + 3 <= 6, 0 <= col < 6, 0 <= i < 6, 0 <= j < 6
    ensures #[trigger] m6_at(m6_set3(m, row, col, v), i, j) ==
        (if j == col && i == row { v.x } else if j == col && i == row + 1 { v.y } else if j == col && i == row + 2 { v.z } else { m6_at(m, i, j) });
impl SVD {
    #[verifier::external_body]
    pub fn new(m: Matrix6, compute_u: bool, compute_v: bool) -> (r: SVD) ensures svd_of(r) == m { unimplemented!() }
    #[verifier::external_body]
    pub fn pseudo_inverse(self, eps: f64) -> (r: Result<Matrix6, &'static str>)
        ensures r matches Ok(g) ==> m6_is_pinv(g, svd_of(self), eps) && pinv_s(svd_of(self), eps) == Some(g),
            r is Err ==> pinv_s(svd_of(self), eps) is None { unimplemented!() }
}
impl core::ops::Mul<Vector6> for Matrix6 { type Output = Vector6; #[verifier::external_body] fn mul(self, rhs: Vector6) -> Vector6 { unimplemented!() } }
impl MulSpecImpl<Vector6> for Matrix6 {
    open spec fn obeys_mul_spec() -> bool { true }
    open spec fn mul_req(self, rhs: Vector6) -> bool { true }
    open spec fn mul_spec(self, rhs: Vector6) -> Vector6 { m6_mv(self, rhs) }
}
impl core::ops::Mul<UnitQuaternion> for UnitQuaternion { type Output = UnitQuaternion; #[verifier::external_body] fn mul(self, rhs: UnitQuaternion) -> UnitQuaternion { unimplemented!() } }
impl MulSpecImpl<UnitQuaternion> for UnitQuaternion {
    open spec fn obeys_mul_spec() -> bool { true }
    open spec fn mul_req(self, rhs: UnitQuaternion) -> bool { true }
    open spec fn mul_spec(self, rhs: UnitQuaternion) -> UnitQuaternion { quat_mul_s(self, rhs) }
}
impl core::ops::Div<f64> for Vector3 { type Output = Vector3; #[verifier::external_body] fn div(self, rhs: f64) -> Vector3 { unimplemented!() } }
impl DivSpecImpl<f64> for Vector3 {
    open spec fn obeys_div_spec() -> bool { true }
    open spec fn div_req(self, rhs: f64) -> bool { true }
    open spec fn div_spec(self, rhs: f64) -> Vector3 { vec_div_s(self, rhs) }
}
impl core::ops::Mul<f64> for Vector3 { type Output = Vector3; #[verifier::external_body] fn mul(self, rhs: f64) -> Vector3 { unimplemented!() } }
impl MulSpecImpl<f64> for Vector3 {
    open spec fn obeys_mul_spec() -> bool { true }
    open spec fn mul_req(self, rhs: f64) -> bool { true }
    open spec fn mul_spec(self, rhs: f64) -> Vector3 { vec_scale_s(rhs, self) }     // v * k == k * v
}
/// M2 (cartesian.rs, C12): `v / k` for a finite vector and a finite non-zero k, stated without division: k * (v / k) == v
pub broadcast axiom fn ax_vec_div(a: Vector3, k: f64)
    requires a.vfin(), fin(k), rv(k) != 0real
    ensures (#[trigger] vec_div_s(a, k)).vfin(), vscale(rv(k), vec_div_s(a, k).v()) == a.v();
/// `a.lerp(&b, t)` == a + t (b - a)  (M2: exact)
pub uninterp spec fn lerp_c(a: Vector3, b: Vector3, t: f64, i: int) -> f64;
pub open spec fn lerp_s(a: Vector3, b: Vector3, t: f64) -> Vector3 { Vector3 { x: lerp_c(a, b, t, 0), y: lerp_c(a, b, t, 1), z: lerp_c(a, b, t, 2) } }
pub broadcast axiom fn ax_lerp(a: Vector3, b: Vector3, t: f64)
    requires a.vfin(), b.vfin(), fin(t)
    ensures (#[trigger] lerp_s(a, b, t)).vfin(), lerp_s(a, b, t).v() == vadd(a.v(), vscale(rv(t), vsub(b.v(), a.v())));
impl Vector3 {
    #[verifier::external_body]
    pub fn lerp(&self, rhs: &Vector3, t: f64) -> (r: Vector3) ensures r == lerp_s(*self, *rhs, t) { unimplemented!() }
}
/// rotation angle of a unit quaternion and spherical interpolation: deterministic functions of their arguments (nalgebra; what
/// they compute is not modelled)
pub uninterp spec fn quat_angle_s(a: UnitQuaternion) -> f64;
pub uninterp spec fn slerp_s(a: UnitQuaternion, b: UnitQuaternion, t: f64) -> UnitQuaternion;
impl UnitQuaternion {
    #[verifier::external_body]
    pub fn angle(&self) -> (r: f64) ensures r == quat_angle_s(*self) { unimplemented!() }
    #[verifier::external_body]
    pub fn slerp(&self, other: &UnitQuaternion, t: f64) -> (r: UnitQuaternion) ensures r == slerp_s(*self, *other, t) { unimplemented!() }
    #[verifier::external_body]
    pub fn scaled_axis(&self) -> (r: Vector3) ensures r == scaled_axis_s(*self) { unimplemented!() }
}
} // mod na6
