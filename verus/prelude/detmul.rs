// ---------------------------------------------------------------------------
// Module `detmul`: PROVED (nothing assumed): the determinant of 3x3 real matrices is multiplicative,
//     det(A * B) == det(A) * det(B),        det(A^T) == det(A),
// and the triad (u, w, u x w) has determinant |u x w|^2.  Used for "proper rotation" claims (C03: every link rotation of
// the OPW chain has determinant +1; C17: the constructed frame is a rotation, not a reflection).
// The one-shot identity (18 variables, degree 6) takes Z3 a minute even when staged monomial by monomial; here it is derived
// from multilinearity: the determinant is linear in each row (generated identity lemma_lin1_g + cyclic symmetry), vanishes
// for repeated rows and changes sign under a swap, so det(rows of A*B) expands into 27 terms of which 6 survive.
// ---------------------------------------------------------------------------
pub mod detmul {
use vstd::prelude::*;
use super::na::*;
use super::linalg::*;
use super::polydet::*;

/// determinant of the matrix with rows u, v, w
pub open spec fn det3(u: V3, v: V3, w: V3) -> real { mdet(M3 { a: u, b: v, c: w }) }
/// p u + q v + r w
pub open spec fn comb(p: real, u: V3, q: real, v: V3, r: real, w: V3) -> V3 {
    V3 { x: p * u.x + q * v.x + r * w.x, y: p * u.y + q * v.y + r * w.y, z: p * u.z + q * v.z + r * w.z }
}
pub proof fn lemma_det_cyc(u: V3, v: V3, w: V3)
    ensures det3(u, v, w) == det3(v, w, u), det3(u, v, w) == det3(w, u, v)
{
    lemma_cyc_g(u.x, u.y, u.z, v.x, v.y, v.z, w.x, w.y, w.z);
    lemma_cyc_g(v.x, v.y, v.z, w.x, w.y, w.z, u.x, u.y, u.z);
}
pub proof fn lemma_det_swap(u: V3, v: V3, w: V3)
    ensures det3(v, u, w) == -det3(u, v, w), det3(u, w, v) == -det3(u, v, w), det3(w, v, u) == -det3(u, v, w)
{
    lemma_swap_g(u.x, u.y, u.z, v.x, v.y, v.z, w.x, w.y, w.z);
    // (u, w, v): cyc to (w, v, u), swap of the first two gives -(v, w, u) == -(u, v, w)
    lemma_det_cyc(u, w, v);          // det3(u,w,v) == det3(w,v,u)
    lemma_swap_g(v.x, v.y, v.z, w.x, w.y, w.z, u.x, u.y, u.z);   // det3(w,v,u) == -det3(v,w,u)
    lemma_det_cyc(u, v, w);          // det3(u,v,w) == det3(v,w,u)
}
/// repeated rows
pub proof fn lemma_det_rep(u: V3, w: V3)
    ensures det3(u, u, w) == 0real, det3(u, w, u) == 0real, det3(w, u, u) == 0real
{
    lemma_swap_g(u.x, u.y, u.z, u.x, u.y, u.z, w.x, w.y, w.z);    // det3(u,u,w) == -det3(u,u,w)
    lemma_det_cyc(u, u, w);                                          // == det3(u,w,u) == det3(w,u,u)
}
/// linear in the first row
pub proof fn lemma_det_lin1(p: real, u: V3, q: real, v: V3, r: real, w: V3, s: V3, t: V3)
    ensures det3(comb(p, u, q, v, r, w), s, t) == p * det3(u, s, t) + q * det3(v, s, t) + r * det3(w, s, t)
{
    let c1 = s.y * t.z - s.z * t.y; let c2 = s.x * t.z - s.z * t.x; let c3 = s.x * t.y - s.y * t.x;
    lemma_lin1_g(p, q, r, u.x, u.y, u.z, v.x, v.y, v.z, w.x, w.y, w.z, c1, c2, c3);
}
/// linear in the second and in the third row (cyclic symmetry)
pub proof fn lemma_det_lin2(s: V3, p: real, u: V3, q: real, v: V3, r: real, w: V3, t: V3)
    ensures det3(s, comb(p, u, q, v, r, w), t) == p * det3(s, u, t) + q * det3(s, v, t) + r * det3(s, w, t)
{
    let m = comb(p, u, q, v, r, w);
    lemma_det_cyc(s, m, t);            // det3(s,m,t) == det3(m,t,s)
    lemma_det_lin1(p, u, q, v, r, w, t, s);
    lemma_det_cyc(s, u, t); lemma_det_cyc(s, v, t); lemma_det_cyc(s, w, t);
}
pub proof fn lemma_det_lin3(s: V3, t: V3, p: real, u: V3, q: real, v: V3, r: real, w: V3)
    ensures det3(s, t, comb(p, u, q, v, r, w)) == p * det3(s, t, u) + q * det3(s, t, v) + r * det3(s, t, w)
{
    let m = comb(p, u, q, v, r, w);
    lemma_det_cyc(s, t, m);            // det3(s,t,m) == det3(m,s,t)  (second form)
    lemma_det_lin1(p, u, q, v, r, w, s, t);
    lemma_det_cyc(s, t, u); lemma_det_cyc(s, t, v); lemma_det_cyc(s, t, w);
}

/// det(A * B) == det(A) * det(B)
pub proof fn lemma_det_mul(a: M3, b: M3)
    ensures mdet(mmul(a, b)) == mdet(a) * mdet(b)
{
    let b1 = b.a; let b2 = b.b; let b3 = b.c;
    let d = det3(b1, b2, b3);
    let r1 = comb(a.a.x, b1, a.a.y, b2, a.a.z, b3);
    let r2 = comb(a.b.x, b1, a.b.y, b2, a.b.z, b3);
    let r3 = comb(a.c.x, b1, a.c.y, b2, a.c.z, b3);
    let ab = mmul(a, b);
    assert(ab.a == r1 && ab.b == r2 && ab.c == r3);
    // third row: det3(bk, bl, r3)
    lemma_det_lin3(b1, b2, a.c.x, b1, a.c.y, b2, a.c.z, b3);
    lemma_det_lin3(b1, b3, a.c.x, b1, a.c.y, b2, a.c.z, b3);
    lemma_det_lin3(b2, b1, a.c.x, b1, a.c.y, b2, a.c.z, b3);
    lemma_det_lin3(b2, b3, a.c.x, b1, a.c.y, b2, a.c.z, b3);
    lemma_det_lin3(b3, b1, a.c.x, b1, a.c.y, b2, a.c.z, b3);
    lemma_det_lin3(b3, b2, a.c.x, b1, a.c.y, b2, a.c.z, b3);
    lemma_det_rep(b1, b2); lemma_det_rep(b1, b3); lemma_det_rep(b2, b1); lemma_det_rep(b2, b3); lemma_det_rep(b3, b1); lemma_det_rep(b3, b2);
    lemma_det_swap(b1, b2, b3); lemma_det_cyc(b1, b2, b3);
    // values with three distinct rows
    assert(det3(b1, b3, b2) == -d && det3(b2, b1, b3) == -d && det3(b3, b2, b1) == -d && det3(b2, b3, b1) == d && det3(b3, b1, b2) == d);
    let z = a.c.z; let y = a.c.y; let x = a.c.x;
    assert(det3(b1, b2, r3) == z * d) by { assert(x * 0real + y * 0real + z * d == z * d) by(nonlinear_arith); }
    assert(det3(b1, b3, r3) == -(y * d)) by { assert(x * 0real + y * (-d) + z * 0real == -(y * d)) by(nonlinear_arith); }
    assert(det3(b2, b1, r3) == -(z * d)) by { assert(x * 0real + y * 0real + z * (-d) == -(z * d)) by(nonlinear_arith); }
    assert(det3(b2, b3, r3) == x * d) by { assert(x * d + y * 0real + z * 0real == x * d) by(nonlinear_arith); }
    assert(det3(b3, b1, r3) == y * d) by { assert(x * 0real + y * d + z * 0real == y * d) by(nonlinear_arith); }
    assert(det3(b3, b2, r3) == -(x * d)) by { assert(x * (-d) + y * 0real + z * 0real == -(x * d)) by(nonlinear_arith); }
    // repeated first two rows
    lemma_det_rep(b1, r3); lemma_det_rep(b2, r3); lemma_det_rep(b3, r3);
    // second row: det3(bk, r2, r3)
    lemma_det_lin2(b1, a.b.x, b1, a.b.y, b2, a.b.z, b3, r3);
    lemma_det_lin2(b2, a.b.x, b1, a.b.y, b2, a.b.z, b3, r3);
    lemma_det_lin2(b3, a.b.x, b1, a.b.y, b2, a.b.z, b3, r3);
    let bx = a.b.x; let by = a.b.y; let bz = a.b.z;
    let m1 = by * z - bz * y; let m2 = bx * z - bz * x; let m3 = bx * y - by * x;
    assert(det3(b1, r2, r3) == m1 * d) by {
        lemma_pair_d_g(by, z, bz, y, d);
        assert(bx * 0real + by * (z * d) + bz * (-(y * d)) == by * (z * d) - bz * (y * d)) by(nonlinear_arith);
    }
    assert(det3(b2, r2, r3) == -(m2 * d)) by {
        lemma_pair_d_g(bx, z, bz, x, d);
        assert(bx * (-(z * d)) + by * 0real + bz * (x * d) == -(bx * (z * d) - bz * (x * d))) by(nonlinear_arith);
    }
    assert(det3(b3, r2, r3) == m3 * d) by {
        lemma_pair_d_g(bx, y, by, x, d);
        assert(bx * (y * d) + by * (-(x * d)) + bz * 0real == bx * (y * d) - by * (x * d)) by(nonlinear_arith);
    }
    // first row
    lemma_det_lin1(a.a.x, b1, a.a.y, b2, a.a.z, b3, r2, r3);
    lemma_trip_d_g(a.a.x, m1, a.a.y, m2, a.a.z, m3, d);
    assert(a.a.x * (m1 * d) + a.a.y * (-(m2 * d)) + a.a.z * (m3 * d) == a.a.x * (m1 * d) - a.a.y * (m2 * d) + a.a.z * (m3 * d)) by(nonlinear_arith);
    assert(mdet(a) == a.a.x * m1 - a.a.y * m2 + a.a.z * m3);
}
/// det(A^T) == det(A)
pub proof fn lemma_det_tr(m: M3)
    ensures mdet(mtr(m)) == mdet(m)
{ lemma_det_tr_g(m.a.x, m.a.y, m.a.z, m.b.x, m.b.y, m.b.z, m.c.x, m.c.y, m.c.z); }
/// det of the elementary rotations
pub proof fn lemma_det_rot(s: real, c: real)
    requires s * s + c * c == 1real
    ensures mdet(rot_z(s, c)) == 1real, mdet(rot_y(s, c)) == 1real
{
    assert(c * (c * 1real - 0real * 0real) - (-s) * (s * 1real - 0real * 0real) + 0real * (s * 0real - c * 0real) == c * c + s * s) by(nonlinear_arith);
    assert(c * (1real * c - 0real * 0real) - 0real * (0real * c - 0real * (-s)) + s * (0real * 0real - 1real * (-s)) == c * c + s * s) by(nonlinear_arith);
}
/// det(rows u, w, u x w) == |u x w|^2
pub proof fn lemma_det_triad(u: V3, w: V3)
    ensures det3(u, w, vcross(u, w)) == vnorm2(vcross(u, w))
{ lemma_triad_det_g(u.x, u.y, u.z, w.x, w.y, w.z); }
} // mod detmul
