// ---------------------------------------------------------------------------
// Float prelude (module `fl`).  ASSUMED, not proved.  See DESIGN.md 1.3.
//
// M1 (sound for IEEE-754): every float operation is total; comparison and
//     equality are deterministic functions of the operands.
// M2 (idealised reals): a float is NaN, +inf, -inf or finite; finite floats
//     carry a real value `rv`; + - * / % abs ... on finite operands behave as
//     on reals and stay finite (no rounding, no overflow).
// Every `axiom fn` / `assume_specification` / `external_body` below is listed in
// contracts/TRUSTED.txt and in each evidence file.
// ---------------------------------------------------------------------------
pub mod fl {
use vstd::prelude::*;
use vstd::std_specs::ops::*;
use vstd::std_specs::cmp::*;
use core::cmp::Ordering;

pub uninterp spec fn rv(x: f64) -> real;      // real value of a finite float
pub uninterp spec fn fin(x: f64) -> bool;     // finite (neither NaN nor +-inf)
pub uninterp spec fn nan(x: f64) -> bool;
pub uninterp spec fn pinf(x: f64) -> bool;
pub uninterp spec fn ninf(x: f64) -> bool;

pub open spec fn rabs(x: real) -> real { if x < 0real { -x } else { x } }

// classification: exactly one of the four
pub broadcast axiom fn ax_class(x: f64)
    ensures
        #![trigger fin(x)] #![trigger nan(x)] #![trigger pinf(x)] #![trigger ninf(x)]
        fin(x) || nan(x) || pinf(x) || ninf(x),
        !(fin(x) && nan(x)), !(fin(x) && pinf(x)), !(fin(x) && ninf(x)),
        !(nan(x) && pinf(x)), !(nan(x) && ninf(x)), !(pinf(x) && ninf(x));

// ---- M1: totality ----------------------------------------------------------
pub broadcast axiom fn ax_add_req(a: f64, b: f64)
    ensures #[trigger] <f64 as AddSpec<f64>>::add_req(a, b), <f64 as AddSpec<f64>>::obeys_add_spec();
pub broadcast axiom fn ax_sub_req(a: f64, b: f64)
    ensures #[trigger] <f64 as SubSpec<f64>>::sub_req(a, b), <f64 as SubSpec<f64>>::obeys_sub_spec();
pub broadcast axiom fn ax_mul_req(a: f64, b: f64)
    ensures #[trigger] <f64 as MulSpec<f64>>::mul_req(a, b), <f64 as MulSpec<f64>>::obeys_mul_spec();
pub broadcast axiom fn ax_div_req(a: f64, b: f64)
    ensures #[trigger] <f64 as DivSpec<f64>>::div_req(a, b), <f64 as DivSpec<f64>>::obeys_div_spec();
pub broadcast axiom fn ax_rem_req(a: f64, b: f64)
    ensures #[trigger] <f64 as RemSpec<f64>>::rem_req(a, b), <f64 as RemSpec<f64>>::obeys_rem_spec();
pub broadcast axiom fn ax_cmp_obeys(a: f64, b: f64)
    ensures
        #![trigger <f64 as PartialOrdSpec<f64>>::partial_cmp_spec(&a, &b)]
        <f64 as PartialOrdSpec<f64>>::obeys_partial_cmp_spec();
pub broadcast axiom fn ax_eq_obeys(a: f64, b: f64)
    ensures
        #![trigger <f64 as PartialEqSpec<f64>>::eq_spec(&a, &b)]
        <f64 as PartialEqSpec<f64>>::obeys_eq_spec();

// the `obeys_*` flags are 0-ary: stated once, called from the generated `unit_axioms()`
pub open spec fn obeys_all() -> bool {
    <f64 as AddSpec<f64>>::obeys_add_spec() && <f64 as SubSpec<f64>>::obeys_sub_spec()
    && <f64 as MulSpec<f64>>::obeys_mul_spec() && <f64 as DivSpec<f64>>::obeys_div_spec()
    && <f64 as RemSpec<f64>>::obeys_rem_spec()
    && <f64 as PartialOrdSpec<f64>>::obeys_partial_cmp_spec() && <f64 as PartialEqSpec<f64>>::obeys_eq_spec()
}
pub axiom fn ax_obeys()
    ensures obeys_all();

// short names for the spec results of the float operators (open: they unfold to the trait functions)
pub open spec fn fadd(a: f64, b: f64) -> f64 { <f64 as AddSpec<f64>>::add_spec(a, b) }
pub open spec fn fsub(a: f64, b: f64) -> f64 { <f64 as SubSpec<f64>>::sub_spec(a, b) }
pub open spec fn fmul(a: f64, b: f64) -> f64 { <f64 as MulSpec<f64>>::mul_spec(a, b) }
pub open spec fn fdiv(a: f64, b: f64) -> f64 { <f64 as DivSpec<f64>>::div_spec(a, b) }
pub open spec fn frem(a: f64, b: f64) -> f64 { <f64 as RemSpec<f64>>::rem_spec(a, b) }

// Floats are encoded as bit integers with a range invariant; Verus does not always know that invariant for
// floats read out of nested structures, and then the typed axioms above do not fire.  Calling this PROVED lemma on
// the two operands states totality for exactly those terms.
pub proof fn lemma_tot(a: f64, b: f64)
    ensures <f64 as AddSpec<f64>>::add_req(a, b), <f64 as SubSpec<f64>>::sub_req(a, b), <f64 as MulSpec<f64>>::mul_req(a, b),
            <f64 as DivSpec<f64>>::div_req(a, b), <f64 as RemSpec<f64>>::rem_req(a, b),
{
    broadcast use {ax_add_req, ax_sub_req, ax_mul_req, ax_div_req, ax_rem_req};
}

/// value facts of + - * for two given finite operands (same purpose as lemma_tot)
pub proof fn lemma_val(a: f64, b: f64)
    requires fin(a), fin(b)
    ensures fin(fadd(a, b)), rv(fadd(a, b)) == rv(a) + rv(b), fin(fsub(a, b)), rv(fsub(a, b)) == rv(a) - rv(b),
            fin(fmul(a, b)), rv(fmul(a, b)) == rv(a) * rv(b),
{
    broadcast use {ax_add, ax_sub, ax_mul};
}

// ---- M2: finite arithmetic is real arithmetic ------------------------------
pub broadcast axiom fn ax_add(a: f64, b: f64)
    requires fin(a), fin(b)
    ensures fin(#[trigger] <f64 as AddSpec<f64>>::add_spec(a, b)), rv(<f64 as AddSpec<f64>>::add_spec(a, b)) == rv(a) + rv(b);
pub broadcast axiom fn ax_sub(a: f64, b: f64)
    requires fin(a), fin(b)
    ensures fin(#[trigger] <f64 as SubSpec<f64>>::sub_spec(a, b)), rv(<f64 as SubSpec<f64>>::sub_spec(a, b)) == rv(a) - rv(b);
pub broadcast axiom fn ax_mul(a: f64, b: f64)
    requires fin(a), fin(b)
    ensures fin(#[trigger] <f64 as MulSpec<f64>>::mul_spec(a, b)), rv(<f64 as MulSpec<f64>>::mul_spec(a, b)) == rv(a) * rv(b);
pub broadcast axiom fn ax_div(a: f64, b: f64)
    requires fin(a), fin(b), rv(b) != 0real
    ensures fin(#[trigger] <f64 as DivSpec<f64>>::div_spec(a, b)), rv(<f64 as DivSpec<f64>>::div_spec(a, b)) == rv(a) / rv(b);
// Rust `%` on floats is C fmod: result has the sign of the dividend,
// |r| < |b|, a - r is an integer multiple of b.
pub uninterp spec fn fmod_q(a: f64, b: f64) -> int;
pub broadcast axiom fn ax_rem(a: f64, b: f64)
    requires fin(a), fin(b), rv(b) != 0real
    ensures
        fin(#[trigger] <f64 as RemSpec<f64>>::rem_spec(a, b)),
        rv(a) == rv(<f64 as RemSpec<f64>>::rem_spec(a, b)) + (fmod_q(a, b) as real) * rv(b),
        rabs(rv(<f64 as RemSpec<f64>>::rem_spec(a, b))) < rabs(rv(b)),
        rv(a) >= 0real ==> rv(<f64 as RemSpec<f64>>::rem_spec(a, b)) >= 0real,
        rv(a) <= 0real ==> rv(<f64 as RemSpec<f64>>::rem_spec(a, b)) <= 0real;

// comparisons
pub open spec fn cmp_real(a: real, b: real) -> Option<Ordering> {
    if a < b { Some(Ordering::Less) } else if a == b { Some(Ordering::Equal) } else { Some(Ordering::Greater) }
}
pub broadcast axiom fn ax_cmp(a: f64, b: f64)
    ensures
        #![trigger <f64 as PartialOrdSpec<f64>>::partial_cmp_spec(&a, &b)]
        fin(a) && fin(b) ==> <f64 as PartialOrdSpec<f64>>::partial_cmp_spec(&a, &b) == cmp_real(rv(a), rv(b)),
        nan(a) || nan(b) ==> <f64 as PartialOrdSpec<f64>>::partial_cmp_spec(&a, &b) == None::<Ordering>,
        pinf(a) && (fin(b) || ninf(b)) ==> <f64 as PartialOrdSpec<f64>>::partial_cmp_spec(&a, &b) == Some(Ordering::Greater),
        ninf(a) && (fin(b) || pinf(b)) ==> <f64 as PartialOrdSpec<f64>>::partial_cmp_spec(&a, &b) == Some(Ordering::Less),
        pinf(b) && (fin(a) || ninf(a)) ==> <f64 as PartialOrdSpec<f64>>::partial_cmp_spec(&a, &b) == Some(Ordering::Less),
        ninf(b) && (fin(a) || pinf(a)) ==> <f64 as PartialOrdSpec<f64>>::partial_cmp_spec(&a, &b) == Some(Ordering::Greater),
        pinf(a) && pinf(b) ==> <f64 as PartialOrdSpec<f64>>::partial_cmp_spec(&a, &b) == Some(Ordering::Equal),
        ninf(a) && ninf(b) ==> <f64 as PartialOrdSpec<f64>>::partial_cmp_spec(&a, &b) == Some(Ordering::Equal);
pub broadcast axiom fn ax_eq(a: f64, b: f64)
    ensures
        #![trigger <f64 as PartialEqSpec<f64>>::eq_spec(&a, &b)]
        fin(a) && fin(b) ==> <f64 as PartialEqSpec<f64>>::eq_spec(&a, &b) == (rv(a) == rv(b)),
        nan(a) || nan(b) ==> !<f64 as PartialEqSpec<f64>>::eq_spec(&a, &b),
        (pinf(a) || ninf(a)) && fin(b) ==> !<f64 as PartialEqSpec<f64>>::eq_spec(&a, &b),
        (pinf(b) || ninf(b)) && fin(a) ==> !<f64 as PartialEqSpec<f64>>::eq_spec(&a, &b),
        pinf(a) && pinf(b) ==> <f64 as PartialEqSpec<f64>>::eq_spec(&a, &b),
        ninf(a) && ninf(b) ==> <f64 as PartialEqSpec<f64>>::eq_spec(&a, &b),
        pinf(a) && ninf(b) ==> !<f64 as PartialEqSpec<f64>>::eq_spec(&a, &b),
        ninf(a) && pinf(b) ==> !<f64 as PartialEqSpec<f64>>::eq_spec(&a, &b);

// non-finite propagation actually needed (inf/NaN through + - and /2)
pub broadcast axiom fn ax_add_nonfin(a: f64, b: f64)
    ensures
        #![trigger <f64 as AddSpec<f64>>::add_spec(a, b)]
        nan(a) || nan(b) ==> nan(<f64 as AddSpec<f64>>::add_spec(a, b)),
        pinf(a) && (fin(b) || pinf(b)) ==> pinf(<f64 as AddSpec<f64>>::add_spec(a, b)),
        pinf(b) && (fin(a) || pinf(a)) ==> pinf(<f64 as AddSpec<f64>>::add_spec(a, b)),
        ninf(a) && (fin(b) || ninf(b)) ==> ninf(<f64 as AddSpec<f64>>::add_spec(a, b)),
        ninf(b) && (fin(a) || ninf(a)) ==> ninf(<f64 as AddSpec<f64>>::add_spec(a, b));
pub broadcast axiom fn ax_sub_nonfin(a: f64, b: f64)
    ensures
        #![trigger <f64 as SubSpec<f64>>::sub_spec(a, b)]
        nan(a) || nan(b) ==> nan(<f64 as SubSpec<f64>>::sub_spec(a, b)),
        pinf(a) && (fin(b) || ninf(b)) ==> pinf(<f64 as SubSpec<f64>>::sub_spec(a, b)),
        ninf(a) && (fin(b) || pinf(b)) ==> ninf(<f64 as SubSpec<f64>>::sub_spec(a, b)),
        fin(a) && pinf(b) ==> ninf(<f64 as SubSpec<f64>>::sub_spec(a, b)),
        fin(a) && ninf(b) ==> pinf(<f64 as SubSpec<f64>>::sub_spec(a, b));
pub broadcast axiom fn ax_mul_nonfin(a: f64, b: f64)
    ensures
        #![trigger <f64 as MulSpec<f64>>::mul_spec(a, b)]
        nan(a) || nan(b) ==> nan(<f64 as MulSpec<f64>>::mul_spec(a, b));

// ---- unary / libm -----------------------------------------------------------
// Verus has no unary minus on floats: rule R8 rewrites `-e` to `fneg(e)`.
#[verifier::external_body]
pub fn fneg(x: f64) -> (r: f64)
    ensures
        fin(x) ==> fin(r) && rv(r) == -rv(x),
        nan(x) ==> nan(r), pinf(x) ==> ninf(r), ninf(x) ==> pinf(r),
        r == fneg_spec(x),
{ -x }
pub uninterp spec fn fneg_spec(x: f64) -> f64;
pub broadcast axiom fn ax_fneg_spec(x: f64)
    ensures
        #![trigger fneg_spec(x)]
        fin(x) ==> fin(fneg_spec(x)) && rv(fneg_spec(x)) == -rv(x),
        nan(x) ==> nan(fneg_spec(x)), pinf(x) ==> ninf(fneg_spec(x)), ninf(x) ==> pinf(fneg_spec(x));

pub uninterp spec fn abs_spec(x: f64) -> f64;
pub broadcast axiom fn ax_abs(x: f64)
    ensures
        #![trigger abs_spec(x)]
        fin(x) ==> fin(abs_spec(x)) && rv(abs_spec(x)) == rabs(rv(x)),
        nan(x) ==> nan(abs_spec(x)),
        pinf(x) || ninf(x) ==> pinf(abs_spec(x));
pub assume_specification [f64::abs] (x: f64) -> (r: f64)
    ensures r == abs_spec(x);

pub assume_specification [f64::is_infinite] (x: f64) -> (r: bool)
    ensures r == (pinf(x) || ninf(x));
pub assume_specification [f64::is_finite] (x: f64) -> (r: bool)
    ensures r == fin(x);
pub assume_specification [f64::is_nan] (x: f64) -> (r: bool)
    ensures r == nan(x);

// signum: 1.0 for +0.0, positives, +inf; -1.0 for -0.0, negatives, -inf; NaN for NaN.
// The sign of zero is not visible in rv; the contract leaves it open at 0.
pub uninterp spec fn signum_spec(x: f64) -> f64;
pub broadcast axiom fn ax_signum(x: f64)
    ensures
        #![trigger signum_spec(x)]
        !nan(x) ==> fin(signum_spec(x)) && (rv(signum_spec(x)) == 1real || rv(signum_spec(x)) == -1real),
        fin(x) && rv(x) > 0real ==> rv(signum_spec(x)) == 1real,
        fin(x) && rv(x) < 0real ==> rv(signum_spec(x)) == -1real,
        pinf(x) ==> rv(signum_spec(x)) == 1real,
        ninf(x) ==> rv(signum_spec(x)) == -1real,
        nan(x) ==> nan(signum_spec(x));
pub assume_specification [f64::signum] (x: f64) -> (r: f64)
    ensures r == signum_spec(x);

// rem_euclid: r = a - b*floor-ish quotient, 0 <= r < |b| (idealised; the real
// function can return |b| itself through rounding).
pub uninterp spec fn rem_euclid_spec(a: f64, b: f64) -> f64;
pub uninterp spec fn rem_euclid_q(a: f64, b: f64) -> int;
pub broadcast axiom fn ax_rem_euclid(a: f64, b: f64)
    requires fin(a), fin(b), rv(b) != 0real
    ensures
        fin(#[trigger] rem_euclid_spec(a, b)),
        rv(a) == rv(rem_euclid_spec(a, b)) + (rem_euclid_q(a, b) as real) * rv(b),
        0real <= rv(rem_euclid_spec(a, b)) < rabs(rv(b));
pub assume_specification [f64::rem_euclid] (a: f64, b: f64) -> (r: f64)
    ensures r == rem_euclid_spec(a, b);

pub uninterp spec fn max_spec(a: f64, b: f64) -> f64;
pub broadcast axiom fn ax_max(a: f64, b: f64)
    ensures
        #![trigger max_spec(a, b)]
        fin(a) && fin(b) ==> fin(max_spec(a, b)) && rv(max_spec(a, b)) == (if rv(a) >= rv(b) { rv(a) } else { rv(b) }),
        ninf(a) && !nan(b) ==> max_spec(a, b) == b,
        ninf(b) && !nan(a) ==> max_spec(a, b) == a;
pub assume_specification [f64::max] (a: f64, b: f64) -> (r: f64)
    ensures r == max_spec(a, b);

// to_radians: x * (pi/180)
pub uninterp spec fn to_radians_spec(x: f64) -> f64;
pub broadcast axiom fn ax_to_radians(x: f64)
    requires fin(x)
    ensures fin(#[trigger] to_radians_spec(x)), rv(to_radians_spec(x)) == rv(x) * pi() / 180real;
pub assume_specification [f64::to_radians] (x: f64) -> (r: f64)
    ensures r == to_radians_spec(x);

// pi as a real constant: uninterpreted, only bounds are known.
pub uninterp spec fn pi() -> real;
pub broadcast axiom fn ax_pi()
    ensures 3.14159real < #[trigger] pi() < 3.1416real;

// trig (uninterpreted real functions + the identities needed; DESIGN 1.3)
pub uninterp spec fn rsin(x: real) -> real;
pub uninterp spec fn rcos(x: real) -> real;
pub uninterp spec fn sin_spec(x: f64) -> f64;
pub uninterp spec fn cos_spec(x: f64) -> f64;
pub broadcast axiom fn ax_sin(x: f64)
    requires fin(x)
    ensures fin(#[trigger] sin_spec(x)), rv(sin_spec(x)) == rsin(rv(x));
pub broadcast axiom fn ax_cos(x: f64)
    requires fin(x)
    ensures fin(#[trigger] cos_spec(x)), rv(cos_spec(x)) == rcos(rv(x));
pub assume_specification [f64::sin] (x: f64) -> (r: f64) ensures r == sin_spec(x);
pub assume_specification [f64::cos] (x: f64) -> (r: f64) ensures r == cos_spec(x);
pub assume_specification [f64::sin_cos] (x: f64) -> (r: (f64, f64))
    ensures r.0 == sin_spec(x), r.1 == cos_spec(x);
// Pythagoras, angle addition, periodicity, parity: textbook identities.
pub broadcast axiom fn ax_pyth(x: real)
    ensures #![trigger rsin(x)] #![trigger rcos(x)] rsin(x) * rsin(x) + rcos(x) * rcos(x) == 1real;
pub axiom fn ax_sin_add(x: real, y: real)
    ensures rsin(x + y) == rsin(x) * rcos(y) + rcos(x) * rsin(y);
pub axiom fn ax_cos_add(x: real, y: real)
    ensures rcos(x + y) == rcos(x) * rcos(y) - rsin(x) * rsin(y);
pub axiom fn ax_trig_zero()
    ensures rsin(0real) == 0real, rcos(0real) == 1real;
pub axiom fn ax_trig_pi()
    ensures rsin(pi()) == 0real, rcos(pi()) == -1real;
pub axiom fn ax_trig_neg(x: real)
    ensures rsin(-x) == -rsin(x), rcos(-x) == rcos(x);

pub uninterp spec fn ratan2(y: real, x: real) -> real;
pub uninterp spec fn rsqrt(x: real) -> real;
pub uninterp spec fn racos(x: real) -> real;
pub uninterp spec fn atan2_spec(y: f64, x: f64) -> f64;
pub uninterp spec fn sqrt_spec(x: f64) -> f64;
pub uninterp spec fn acos_spec(x: f64) -> f64;
pub broadcast axiom fn ax_atan2(y: f64, x: f64)
    requires fin(y), fin(x)
    ensures fin(#[trigger] atan2_spec(y, x)), rv(atan2_spec(y, x)) == ratan2(rv(y), rv(x));
pub broadcast axiom fn ax_sqrt(x: f64)
    ensures
        #![trigger sqrt_spec(x)]
        fin(x) && rv(x) >= 0real ==> fin(sqrt_spec(x)) && rv(sqrt_spec(x)) == rsqrt(rv(x)),
        fin(x) && rv(x) < 0real ==> nan(sqrt_spec(x)),
        nan(x) ==> nan(sqrt_spec(x));
pub assume_specification [f64::atan2] (y: f64, x: f64) -> (r: f64) ensures r == atan2_spec(y, x);
pub assume_specification [f64::sqrt] (x: f64) -> (r: f64) ensures r == sqrt_spec(x);
pub assume_specification [f64::acos] (x: f64) -> (r: f64) ensures r == acos_spec(x);
// further libm functions that the pinned tree does not use: total, deterministic, otherwise UNCONSTRAINED (no axioms), so
// that a change which introduces one of them fails the obligations it breaks instead of leaving the unit undecided
pub uninterp spec fn atan_spec(x: f64) -> f64;
pub uninterp spec fn asin_spec(x: f64) -> f64;
pub uninterp spec fn tan_spec(x: f64) -> f64;
pub uninterp spec fn hypot_spec(x: f64, y: f64) -> f64;
pub assume_specification [f64::atan] (x: f64) -> (r: f64) ensures r == atan_spec(x);
pub assume_specification [f64::asin] (x: f64) -> (r: f64) ensures r == asin_spec(x);
pub assume_specification [f64::tan] (x: f64) -> (r: f64) ensures r == tan_spec(x);
pub assume_specification [f64::hypot] (x: f64, y: f64) -> (r: f64) ensures r == hypot_spec(x, y);
pub uninterp spec fn clamp_spec(x: f64, lo: f64, hi: f64) -> f64;
pub assume_specification [f64::clamp] (x: f64, lo: f64, hi: f64) -> (r: f64) ensures r == clamp_spec(x, lo, hi);
pub uninterp spec fn min_spec(a: f64, b: f64) -> f64;
pub assume_specification [f64::min] (a: f64, b: f64) -> (r: f64) ensures r == min_spec(a, b);
pub axiom fn ax_rsqrt(x: real)
    requires x >= 0real
    ensures rsqrt(x) >= 0real, rsqrt(x) * rsqrt(x) == x;
// polar decomposition: with k = sqrt(a^2 + c^2), k cos(atan2(a,c)) = c, k sin(atan2(a,c)) = a
pub axiom fn ax_atan2_polar(a: real, c: real)
    ensures
        rsqrt(a * a + c * c) * rcos(ratan2(a, c)) == c,
        rsqrt(a * a + c * c) * rsin(ratan2(a, c)) == a;

// constants of std::f64 (rule D1 drops the `use`; names resolve here)
#[verifier::external_body]
pub const PI: f64 = core::f64::consts::PI;
#[verifier::external_body]
pub const INFINITY: f64 = f64::INFINITY;
#[verifier::external_body]
pub const NAN: f64 = f64::NAN;
#[verifier::external_body]
pub const NEG_INFINITY: f64 = f64::NEG_INFINITY;
pub broadcast axiom fn ax_consts_ninf()
    ensures #![trigger ninf(NEG_INFINITY)] ninf(NEG_INFINITY);
pub broadcast axiom fn ax_consts()
    ensures
        #![trigger fin(PI)] #![trigger rv(PI)]
        fin(PI), rv(PI) == pi();
pub broadcast axiom fn ax_consts_inf()
    ensures #![trigger pinf(INFINITY)] pinf(INFINITY);
pub broadcast axiom fn ax_consts_nan()
    ensures #![trigger nan(NAN)] nan(NAN);

// usize <-> f64 casts (rule R29)
/// `n as f64` for a usize n
pub uninterp spec fn u2f(n: usize) -> f64;
#[verifier::external_body]
pub fn usize_to_f64(n: usize) -> (r: f64) ensures r == u2f(n) { unimplemented!() }
/// M2: the cast is exact (true below 2^53)
pub broadcast axiom fn ax_u2f(n: usize) ensures fin(#[trigger] u2f(n)), rv(u2f(n)) == n as real;
/// `x.ceil() as usize` (saturating, NaN -> 0): a deterministic function of x, otherwise unconstrained
pub uninterp spec fn ceil_usize_s(x: f64) -> usize;
#[verifier::external_body]
pub fn ceil_to_usize(x: f64) -> (r: usize) ensures r == ceil_usize_s(x) { unimplemented!() }
/// `a.max(b)` on usize
pub fn usize_max(a: usize, b: usize) -> (r: usize) ensures r == (if a >= b { a } else { b }) { if a >= b { a } else { b } }
// i8 -> f64 cast (sign corrections); rule R13 rewrites `x as f64` to `i8_to_f64(x)`
#[verifier::external_body]
pub fn i8_to_f64(a: i8) -> (r: f64)
    ensures fin(r), rv(r) == a as real, r == (a as f64),
{ a as f64 }
pub broadcast axiom fn ax_i8_cast(a: i8)
    ensures fin(#[trigger] (a as f64)), rv(a as f64) == a as real;

pub broadcast group group_m1 {
    ax_add_req, ax_sub_req, ax_mul_req, ax_div_req, ax_rem_req, ax_cmp_obeys, ax_eq_obeys,
}
pub broadcast group group_m2 {
    ax_class,
    ax_add_req, ax_sub_req, ax_mul_req, ax_div_req, ax_rem_req, ax_cmp_obeys, ax_eq_obeys,
    ax_add, ax_sub, ax_mul, ax_div, ax_rem, ax_cmp, ax_eq,
    ax_add_nonfin, ax_sub_nonfin, ax_mul_nonfin,
    ax_fneg_spec, ax_abs, ax_signum, ax_rem_euclid, ax_max, ax_to_radians, ax_pi,
    ax_sin, ax_cos, ax_pyth, ax_atan2, ax_sqrt, ax_u2f,
    ax_consts, ax_consts_inf, ax_consts_nan, ax_consts_ninf, ax_i8_cast,
}
} // mod fl
