// ---------------------------------------------------------------------------
// Module `angles`: spec functions and PROVED lemmas about angles modulo 2*pi.
// Nothing in this module is assumed (no axiom / external_body / assume).
// The definitions `arc_accept` etc. are written from the statement of C07.
// ---------------------------------------------------------------------------
pub mod angles {
use vstd::prelude::*;
use vstd::std_specs::ops::*;
use vstd::std_specs::cmp::*;
use super::fl::*;

pub open spec fn tp() -> real { 2real * pi() }

/// k whole turns
pub open spec fn turns(k: int) -> real { (k as real) * tp() }

/// |x - c - k turns| <= tol
pub open spec fn within(d: real, k: int, tol: real) -> bool { rabs(d - turns(k)) <= tol }

/// x is within tol of c modulo whole turns
pub open spec fn near_mod(x: real, c: real, tol: real) -> bool { exists|k: int| #[trigger] within(x - c, k, tol) }

/// b == t + n turns
pub open spec fn shifted(b: real, t: real, n: int) -> bool { b == t + turns(n) }

/// x + k turns lies in [lo, lo + w]
pub open spec fn in_window(x: real, k: int, lo: real, w: real) -> bool { lo <= x + turns(k) <= lo + w }

/// C07, from the statement: the angle taken modulo 2*pi lies on the arc that starts at `from`
/// and runs in the positive direction for `w` radians.
pub open spec fn on_arc(x: real, from: real, w: real) -> bool { exists|k: int| #[trigger] in_window(x, k, from, w) }

/// width of the arc from `from` to `to` (from != to): to - from when from < to (may exceed a
/// full turn); otherwise the representative of to - from in [0, 2 pi).
pub open spec fn is_width(from: real, to: real, w: real) -> bool {
    if from < to { w == to - from } else { 0real <= w < tp() && exists|n: int| #[trigger] shifted(from + w, to, n) }
}

/// C07 acceptance of one joint, written from the statement.
pub open spec fn arc_accept(x: real, from: real, to: real) -> bool {
    from == to || exists|w: real| #[trigger] is_width(from, to, w) && on_arc(x, from, w)
}

/// what compute_centers must deliver for one joint
pub open spec fn centers_ok(from: f64, to: f64, c: f64, t: f64) -> bool {
    fin(c) && if rv(from) == rv(to) { pinf(t) } else {
        fin(t) && rv(c) - rv(t) == rv(from) && is_width(rv(from), rv(to), 2real * rv(t))
    }
}

pub open spec fn fold_pi(m: real) -> real { if m > pi() { tp() - m } else { m } }

pub proof fn lemma_distr(x: int, y: int)
    ensures turns(x + y) == turns(x) + turns(y), turns(0) == 0real, turns(1) == tp(), turns(-x) == -turns(x), turns(-y) == -turns(y), turns(x - y) == turns(x) - turns(y),
{
    let p = tp();
    assert(((x + y) as real) * p == (x as real) * p + (y as real) * p) by(nonlinear_arith);
    assert((0int as real) * p == 0real) by(nonlinear_arith);
    assert((1int as real) * p == p) by(nonlinear_arith);
    assert(((-x) as real) * p == -((x as real) * p)) by(nonlinear_arith);
    assert(((-y) as real) * p == -((y as real) * p)) by(nonlinear_arith);
    assert(((x - y) as real) * p == (x as real) * p - (y as real) * p) by(nonlinear_arith);
}

pub proof fn lemma_mulsign(j: int)
    ensures j >= 0 ==> turns(j) >= 0real, j >= 1 ==> turns(j) >= tp(), j <= -1 ==> turns(j) <= -tp(), tp() > 6real,
{
    broadcast use ax_pi;
    let p = tp();
    assert(p > 0real);
    assert(j >= 0 ==> (j as real) * p >= 0real) by(nonlinear_arith) requires p > 0real;
    assert(j >= 1 ==> (j as real) * p >= p) by(nonlinear_arith) requires p > 0real;
    assert(j <= -1 ==> (j as real) * p <= -p) by(nonlinear_arith) requires p > 0real;
}

pub proof fn lemma_shift_zero(b: real)
    ensures shifted(b, b, 0)
{ lemma_distr(0, 0); }

pub proof fn lemma_shift_step(b: real, t: real, n: int)
    requires shifted(b, t, n)
    ensures shifted(b + tp(), t, n + 1)
{ lemma_distr(n, 1); }

/// fold_pi(|d| fmod 2pi) is the distance from d to the nearest multiple of 2 pi
pub proof fn lemma_fold_min(d: real, m: real, q: int, tol: real)
    requires rabs(d) == m + turns(q), 0real <= m < tp()
    ensures (fold_pi(m) <= tol) <==> exists|k: int| #[trigger] within(d, k, tol)
{
    broadcast use ax_pi;
    if fold_pi(m) <= tol {
        let k0: int = if m > pi() { q + 1 } else { q };
        let k: int = if d >= 0real { k0 } else { -k0 };
        lemma_distr(q, 1); lemma_distr(k0, -k0);
        assert(within(d, k, tol));
    }
    assert forall|k: int| #[trigger] within(d, k, tol) implies fold_pi(m) <= tol by {
        let j: int = if d >= 0real { q - k } else { q + k };
        lemma_distr(q, -k); lemma_distr(q, k); lemma_distr(k, -k);
        assert(rabs(d - turns(k)) == rabs(m + turns(j)));
        lemma_mulsign(j);
    }
}

/// the body of Constraints::inside_bounds computes fold_pi(|a1-a2| fmod 2pi)
pub proof fn lemma_inside(a1: f64, a2: f64, tol: f64, two_pi: f64)
    requires fin(a1), fin(a2), fin(two_pi), rv(two_pi) == tp()
    ensures ({
        let d = abs_spec(fsub(a1, a2));
        let m = frem(d, two_pi);
        fin(m) && 0real <= rv(m) < tp() &&
        ((fold_pi(rv(m)) <= rv(tol)) <==> near_mod(rv(a1), rv(a2), rv(tol)))
    })
{
    broadcast use group_m2;
    let d = abs_spec(fsub(a1, a2));
    let m = frem(d, two_pi);
    assert(rv(d) == rabs(rv(a1) - rv(a2)));
    lemma_mulsign(0);
    assert(rv(d) == rv(m) + (fmod_q(d, two_pi) as real) * rv(two_pi));
    lemma_fold_min(rv(a1) - rv(a2), rv(m), fmod_q(d, two_pi), rv(tol));
}

/// centre/tolerance form <=> arc form
pub proof fn lemma_near_is_arc(x: real, c: real, t: real, from: real, w: real)
    requires c - t == from, w == 2real * t
    ensures near_mod(x, c, t) <==> on_arc(x, from, w)
{
    if near_mod(x, c, t) {
        let k = choose|k: int| #[trigger] within(x - c, k, t);
        lemma_distr(k, -k);
        assert(in_window(x, -k, from, w));
    }
    if on_arc(x, from, w) {
        let k = choose|k: int| #[trigger] in_window(x, k, from, w);
        lemma_distr(k, -k);
        assert(within(x - c, -k, t));
    }
}

/// width is unique
pub proof fn lemma_width_unique(from: real, to: real, w1: real, w2: real)
    requires from != to, is_width(from, to, w1), is_width(from, to, w2)
    ensures w1 == w2
{
    if from > to {
        let n1 = choose|n: int| #[trigger] shifted(from + w1, to, n);
        let n2 = choose|n: int| #[trigger] shifted(from + w2, to, n);
        lemma_distr(n1, -n2);
        lemma_mulsign(n1 - n2);
        lemma_mulsign(n2 - n1);
        lemma_distr(n2, -n1);
        assert(w1 - w2 == turns(n1 - n2));
        if n1 != n2 { assert(false); }
        lemma_distr(0, 0);
    }
}

/// O-C07-accept: what the code computes (centre/tolerance test) is arc membership of the statement.
pub proof fn lemma_accept(x: real, from: f64, to: f64, c: f64, t: f64)
    requires fin(from), fin(to), centers_ok(from, to, c, t), rv(from) != rv(to),
    ensures near_mod(x, rv(c), rv(t)) <==> arc_accept(x, rv(from), rv(to))
{
    let w = 2real * rv(t);
    lemma_near_is_arc(x, rv(c), rv(t), rv(from), w);
    if on_arc(x, rv(from), w) {
        assert(is_width(rv(from), rv(to), w) && on_arc(x, rv(from), w));
    }
    if arc_accept(x, rv(from), rv(to)) {
        let w2 = choose|w2: real| #[trigger] is_width(rv(from), rv(to), w2) && on_arc(x, rv(from), w2);
        lemma_width_unique(rv(from), rv(to), w, w2);
    }
}

// ---- consequences named in the statement of C07 (all proved) -------------------
/// invariant under whole turns of the angle
pub proof fn lemma_arc_turn_angle(x: real, from: real, to: real, m: int)
    ensures arc_accept(x + turns(m), from, to) <==> arc_accept(x, from, to)
{
    assert forall|w: real| on_arc(x + turns(m), from, w) <==> on_arc(x, from, w) by {
        if on_arc(x + turns(m), from, w) {
            let k = choose|k: int| #[trigger] in_window(x + turns(m), k, from, w);
            lemma_distr(m, k);
            assert(in_window(x, m + k, from, w));
        }
        if on_arc(x, from, w) {
            let k = choose|k: int| #[trigger] in_window(x, k, from, w);
            lemma_distr(m, k - m);
            assert(in_window(x + turns(m), k - m, from, w));
        }
    }
    if arc_accept(x + turns(m), from, to) && from != to {
        let w = choose|w: real| #[trigger] is_width(from, to, w) && on_arc(x + turns(m), from, w);
        assert(is_width(from, to, w) && on_arc(x, from, w));
    }
    if arc_accept(x, from, to) && from != to {
        let w = choose|w: real| #[trigger] is_width(from, to, w) && on_arc(x, from, w);
        assert(is_width(from, to, w) && on_arc(x + turns(m), from, w));
    }
}

/// invariant under whole turns added to both limits
pub proof fn lemma_arc_turn_limits(x: real, from: real, to: real, m: int)
    ensures arc_accept(x, from + turns(m), to + turns(m)) <==> arc_accept(x, from, to)
{
    let f2 = from + turns(m);
    let t2 = to + turns(m);
    assert forall|w: real| is_width(f2, t2, w) <==> is_width(from, to, w) by {
        if from >= to {
            if is_width(f2, t2, w) {
                let n = choose|n: int| #[trigger] shifted(f2 + w, t2, n);
                assert(shifted(from + w, to, n));
            }
            if is_width(from, to, w) {
                let n = choose|n: int| #[trigger] shifted(from + w, to, n);
                assert(shifted(f2 + w, t2, n));
            }
        }
    }
    assert forall|w: real| on_arc(x, f2, w) <==> on_arc(x, from, w) by {
        if on_arc(x, f2, w) {
            let k = choose|k: int| #[trigger] in_window(x, k, f2, w);
            lemma_distr(k, -m);
            assert(in_window(x, k - m, from, w));
        }
        if on_arc(x, from, w) {
            let k = choose|k: int| #[trigger] in_window(x, k, from, w);
            lemma_distr(k, m);
            assert(in_window(x, k + m, f2, w));
        }
    }
    if arc_accept(x, f2, t2) && from != to {
        let w = choose|w: real| #[trigger] is_width(f2, t2, w) && on_arc(x, f2, w);
        assert(is_width(from, to, w) && on_arc(x, from, w));
    }
    if arc_accept(x, from, to) && from != to {
        let w = choose|w: real| #[trigger] is_width(from, to, w) && on_arc(x, from, w);
        assert(is_width(f2, t2, w) && on_arc(x, f2, w));
    }
}

/// a window of a full turn or more contains a representative of every angle
pub proof fn lemma_full_turn(x: real, lo: real, w: real)
    requires w >= tp()
    ensures on_arc(x, lo, w)
{
    // induction-free: pick k = floor((lo + w - x) / tp()); existence via an explicit search lemma
    lemma_mulsign(0);
    let k = lemma_floor_turns(lo + w - x);
    lemma_distr(k, 1);
    assert(in_window(x, k, lo, w));
}

/// for every real y there is k with turns(k) <= y < turns(k+1)
pub proof fn lemma_floor_turns(y: real) -> (k: int)
    ensures turns(k) <= y < turns(k + 1)
{
    lemma_mulsign(0);
    let p = tp();
    let q: real = y / p;
    let k: int = q.floor();
    assert(q * p == y) by(nonlinear_arith) requires q == y / p, p > 6real;
    assert((k as real) <= q < (k as real) + 1real);
    assert((k as real) * p <= q * p) by(nonlinear_arith) requires (k as real) <= q, p > 6real;
    assert(q * p < ((k as real) + 1real) * p) by(nonlinear_arith) requires q < (k as real) + 1real, p > 6real;
    assert(((k + 1) as real) * p == ((k as real) + 1real) * p) by(nonlinear_arith);
    k
}

/// span of a full turn or more accepts everything
pub proof fn lemma_arc_full(x: real, from: real, to: real)
    requires to - from >= tp()
    ensures arc_accept(x, from, to)
{
    lemma_mulsign(0);
    lemma_full_turn(x, from, to - from);
    assert(is_width(from, to, to - from));
}

/// the centre of a range is accepted (finite tolerance, t >= 0)
pub proof fn lemma_centre_accepted(c: real, t: real)
    requires t >= 0real
    ensures near_mod(c, c, t)
{
    lemma_distr(0, 0);
    assert(within(c - c, 0, t));
}

/// both ends are accepted (boundaries included)
pub proof fn lemma_ends_accepted(from: real, w: real)
    requires w >= 0real
    ensures on_arc(from, from, w), on_arc(from + w, from, w)
{
    lemma_distr(0, 0);
    assert(in_window(from, 0, from, w));
    assert(in_window(from + w, 0, from, w));
}

} // mod angles
