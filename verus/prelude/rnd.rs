// ---------------------------------------------------------------------------
// Module `rnd`: shim for the `rand` crate.  ASSUMED contract of gen_range on a half-open
// f64 range (rand 0.8/0.9 documentation): panics if the range is empty or not finite,
// otherwise returns low <= x < high.  The RNG state is opaque: the postcondition holds for
// EVERY outcome, which is how "all outcomes of the random generator" is quantified.
// ---------------------------------------------------------------------------
pub mod rnd {
use vstd::prelude::*;
use super::fl::*;
pub mod rand {
    use vstd::prelude::*;
    use super::super::fl::*;
    #[verifier::external_body]
    pub struct ThreadRng { _p: u8 }
    #[verifier::external_body]
    pub fn thread_rng() -> ThreadRng { unimplemented!() }
    impl ThreadRng {
        #[verifier::external_body]
        pub fn gen_range(&mut self, r: core::ops::Range<f64>) -> (x: f64)
            requires fin(r.start), fin(r.end), rv(r.start) < rv(r.end),   // else: panic "cannot sample empty range"
            ensures fin(x), rv(r.start) <= rv(x) < rv(r.end),
        { unimplemented!() }
    }
}
} // mod rnd
