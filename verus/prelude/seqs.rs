// ---------------------------------------------------------------------------
// Module `seqs`: PROVED lemmas about Seq::filter (nothing assumed).
// ---------------------------------------------------------------------------
pub mod seqs {
use vstd::prelude::*;

pub broadcast proof fn lemma_filter_elem<A>(s: Seq<A>, p: spec_fn(A) -> bool, i: int)
    requires 0 <= i < s.filter(p).len()
    ensures p(#[trigger] s.filter(p)[i]), s.contains(s.filter(p)[i])
    decreases s.len()
{
    reveal(Seq::filter);
    if s.len() > 0 {
        let f0 = s.drop_last().filter(p);
        if i < f0.len() {
            lemma_filter_elem(s.drop_last(), p, i);
            let j = choose|j: int| 0 <= j < s.drop_last().len() && s.drop_last()[j] == f0[i];
            assert(s[j] == f0[i]);
        } else {
            assert(s[s.len() - 1] == s.last());
        }
    }
}
pub proof fn lemma_filter_true<A>(s: Seq<A>, p: spec_fn(A) -> bool)
    requires forall|x: A| #[trigger] p(x)
    ensures s.filter(p) == s
    decreases s.len()
{
    reveal(Seq::filter);
    if s.len() > 0 {
        lemma_filter_true(s.drop_last(), p);
        assert(s.drop_last().push(s.last()) == s);
    }
}

/// every element satisfying p survives the filter
pub proof fn lemma_filter_contains<A>(s: Seq<A>, p: spec_fn(A) -> bool, k: int)
    requires 0 <= k < s.len(), p(s[k])
    ensures s.filter(p).contains(s[k])
    decreases s.len()
{
    reveal(Seq::filter);
    if k == s.len() - 1 {
        let f = s.filter(p);
        assert(f == s.drop_last().filter(p).push(s.last()));
        assert(f[f.len() - 1] == s[k]);
    } else {
        lemma_filter_contains(s.drop_last(), p, k);
        let f0 = s.drop_last().filter(p);
        let n = choose|n: int| 0 <= n < f0.len() && f0[n] == s.drop_last()[k];
        assert(s.filter(p)[n] == s[k]);
    }
}
pub proof fn lemma_filter_push<A>(s: Seq<A>, x: A, p: spec_fn(A) -> bool)
    ensures s.push(x).filter(p) == (if p(x) { s.filter(p).push(x) } else { s.filter(p) })
{
    reveal(Seq::filter);
    assert(s.push(x).drop_last() == s);
}
pub proof fn lemma_filter_empty<A>(p: spec_fn(A) -> bool)
    ensures Seq::<A>::empty().filter(p) == Seq::<A>::empty()
{
    reveal(Seq::filter);
}
/// rule R4: `v.extend(&w)` for Vec<T: Copy> appends the elements of w in order (std contract, assumed)
#[verifier::external_body]
pub fn vec_extend_ref<T: Copy>(v: &mut Vec<T>, w: &Vec<T>)
    ensures final(v)@ == old(v)@ + w@
{ v.extend(w) }
} // mod seqs
