// ---------------------------------------------------------------------------
// Module `seqs`: PROVED lemmas about Seq::filter (nothing assumed).
// ---------------------------------------------------------------------------
pub mod seqs {
use vstd::prelude::*;

pub broadcast proof fn lemma_filter_elem<A>(s: Seq<A>, p: spec_fn(A) -> bool, i: int)
    requires 0 <= i < s.filter(p).len()
    ensures p(#[trigger] s.filter(p)[i]), s.contains(s.filter(p)[i])
    decreases s.len()
{
    reveal(Seq::filter);
    if s.len() > 0 {
        let f0 = s.drop_last().filter(p);
        if i < f0.len() {
            lemma_filter_elem(s.drop_last(), p, i);
            let j = choose|j: int| 0 <= j < s.drop_last().len() && s.drop_last()[j] == f0[i];
            assert(s[j] == f0[i]);
        } else {
            assert(s[s.len() - 1] == s.last());
        }
    }
}
pub proof fn lemma_filter_true<A>(s: Seq<A>, p: spec_fn(A) -> bool)
    requires forall|x: A| #[trigger] p(x)
    ensures s.filter(p) == s
    decreases s.len()
{
    reveal(Seq::filter);
    if s.len() > 0 {
        lemma_filter_true(s.drop_last(), p);
        assert(s.drop_last().push(s.last()) == s);
    }
}

/// every element satisfying p survives the filter
pub proof fn lemma_filter_contains<A>(s: Seq<A>, p: spec_fn(A) -> bool, k: int)
    requires 0 <= k < s.len(), p(s[k])
    ensures s.filter(p).contains(s[k])
    decreases s.len()
{
    reveal(Seq::filter);
    if k == s.len() - 1 {
        let f = s.filter(p);
        assert(f == s.drop_last().filter(p).push(s.last()));
        assert(f[f.len() - 1] == s[k]);
    } else {
        lemma_filter_contains(s.drop_last(), p, k);
        let f0 = s.drop_last().filter(p);
        let n = choose|n: int| 0 <= n < f0.len() && f0[n] == s.drop_last()[k];
        assert(s.filter(p)[n] == s[k]);
    }
}
pub proof fn lemma_filter_push<A>(s: Seq<A>, x: A, p: spec_fn(A) -> bool)
    ensures s.push(x).filter(p) == (if p(x) { s.filter(p).push(x) } else { s.filter(p) })
{
    reveal(Seq::filter);
    assert(s.push(x).drop_last() == s);
}
/// appending elements that all fail p does not change the filter
pub proof fn lemma_filter_none_append<A>(s: Seq<A>, e: Seq<A>, p: spec_fn(A) -> bool)
    requires forall|k: int| 0 <= k < e.len() ==> !p(#[trigger] e[k])
    ensures (s + e).filter(p) == s.filter(p)
    decreases e.len()
{
    if e.len() == 0 {
        assert(s + e == s);
    } else {
        lemma_filter_none_append(s, e.drop_last(), p);
        assert(s + e == (s + e.drop_last()).push(e.last()));
        lemma_filter_push(s + e.drop_last(), e.last(), p);
    }
}
/// filter distributes over concatenation
pub proof fn lemma_filter_append<A>(s: Seq<A>, e: Seq<A>, p: spec_fn(A) -> bool)
    ensures (s + e).filter(p) == s.filter(p) + e.filter(p)
    decreases e.len()
{
    if e.len() == 0 {
        lemma_filter_empty(p);
        assert(e == Seq::<A>::empty());
        assert(s + e == s);
        assert(s.filter(p) + Seq::<A>::empty() == s.filter(p));
    } else {
        lemma_filter_append(s, e.drop_last(), p);
        assert(s + e == (s + e.drop_last()).push(e.last()));
        assert(e == e.drop_last().push(e.last()));
        lemma_filter_push(s + e.drop_last(), e.last(), p);
        lemma_filter_push(e.drop_last(), e.last(), p);
        if p(e.last()) {
            assert((s.filter(p) + e.drop_last().filter(p)).push(e.last()) == s.filter(p) + e.drop_last().filter(p).push(e.last()));
        }
    }
}
/// a prefix has no more elements satisfying p than the whole sequence
pub proof fn lemma_filter_prefix_len<A>(s: Seq<A>, k: int, p: spec_fn(A) -> bool)
    requires 0 <= k <= s.len()
    ensures s.take(k).filter(p).len() <= s.filter(p).len()
{
    lemma_filter_append(s.take(k), s.skip(k), p);
    assert(s.take(k) + s.skip(k) == s);
}
/// filtering by p first does not change a filter by q when every element of s that satisfies q satisfies p
pub proof fn lemma_filter_filter<A>(s: Seq<A>, p: spec_fn(A) -> bool, q: spec_fn(A) -> bool)
    requires forall|i: int| 0 <= i < s.len() ==> (q(#[trigger] s[i]) ==> p(s[i]))
    ensures s.filter(p).filter(q) == s.filter(q)
    decreases s.len()
{
    if s.len() == 0 {
        lemma_filter_empty(p);
        assert(s == Seq::<A>::empty());
    } else {
        assert forall|i: int| 0 <= i < s.drop_last().len() implies (q(#[trigger] s.drop_last()[i]) ==> p(s.drop_last()[i])) by {
            assert(s.drop_last()[i] == s[i]);
        }
        lemma_filter_filter(s.drop_last(), p, q);
        assert(s == s.drop_last().push(s.last()));
        lemma_filter_push(s.drop_last(), s.last(), p);
        lemma_filter_push(s.drop_last(), s.last(), q);
        assert(s.last() == s[s.len() - 1]);
        if p(s.last()) {
            lemma_filter_push(s.drop_last().filter(p), s.last(), q);
        }
    }
}
pub proof fn lemma_filter_empty<A>(p: spec_fn(A) -> bool)
    ensures Seq::<A>::empty().filter(p) == Seq::<A>::empty()
{
    reveal(Seq::filter);
}
/// rule R4: `v.extend(&w)` for Vec<T: Copy> appends the elements of w in order (std contract, assumed)
#[verifier::external_body]
pub fn vec_extend_ref<T: Copy>(v: &mut Vec<T>, w: &Vec<T>)
    ensures final(v)@ == old(v)@ + w@
{ v.extend(w) }
/// rule R6j: an empty vector with the element type of `v` (verified; only fixes the type for inference)
pub fn vec_empty_like<T>(v: &Vec<T>) -> (r: Vec<T>)
    ensures r@ == Seq::<T>::empty()
{ Vec::new() }
/// rule R22: `a.into_iter().chain(b.into_iter()).collect()` (std contract, assumed): a's elements, then b's
#[verifier::external_body]
pub fn vec_concat<T>(a: Vec<T>, b: Vec<T>) -> (r: Vec<T>)
    ensures r@ == a@ + b@
{ a.into_iter().chain(b.into_iter()).collect() }
/// rule R22b: `vec![x.clone()]` for a Copy element (verified)
pub fn vec_one<T: Copy>(x: T) -> (r: Vec<T>)
    ensures r@ == seq![x]
{ let mut v = Vec::new(); v.push(x); v }
// ---- rule R24: Vec::sort_by with a comparator that orders by a real-valued key --------------------------
pub open spec fn cmp3(a: real, b: real) -> core::cmp::Ordering {
    if a < b { core::cmp::Ordering::Less } else if a == b { core::cmp::Ordering::Equal } else { core::cmp::Ordering::Greater }
}
/// on the elements of s, whatever the comparator answers is the three-way comparison of their keys
pub open spec fn cmp_by_key<T, F: Fn(&T, &T) -> core::cmp::Ordering>(f: F, key: spec_fn(T) -> real, s: Seq<T>) -> bool {
    forall|i: int, j: int, o: core::cmp::Ordering| 0 <= i < s.len() && 0 <= j < s.len() && #[trigger] f.ensures((&s[i], &s[j]), o) ==> o == cmp3(key(s[i]), key(s[j]))
}
pub open spec fn sorted_by_key<T>(s: Seq<T>, key: spec_fn(T) -> real) -> bool {
    forall|i: int, j: int| 0 <= i <= j < s.len() ==> key(#[trigger] s[i]) <= key(#[trigger] s[j])
}
/// `v.sort_by(f)` (std contract, ASSUMED): a permutation; if the comparator is the three-way comparison of a
/// real-valued key on the elements (hence a total preorder), the result is in non-decreasing key order
#[verifier::external_body]
pub fn vec_sort_by<T, F: Fn(&T, &T) -> core::cmp::Ordering>(v: &mut Vec<T>, f: F)
    requires forall|i: int, j: int| 0 <= i < old(v)@.len() && 0 <= j < old(v)@.len() ==> #[trigger] f.requires((&old(v)@[i], &old(v)@[j])),
    ensures final(v)@.len() == old(v)@.len(),
        final(v)@.to_multiset() == old(v)@.to_multiset(),
        forall|x: T| final(v)@.contains(x) <==> old(v)@.contains(x),
        forall|key: spec_fn(T) -> real| #[trigger] cmp_by_key(f, key, old(v)@) ==> sorted_by_key(final(v)@, key),
{ v.sort_by(|a, b| f(a, b)) }
/// `Vec::dedup` (rule R30; not used by the pinned tree): ASSUMED only that it never lengthens the vector
#[verifier::external_body]
pub fn vec_dedup<T: PartialEq>(v: &mut Vec<T>)
    ensures final(v)@.len() <= old(v)@.len()
{ v.dedup() }
} // mod seqs
