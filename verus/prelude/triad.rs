// ---------------------------------------------------------------------------
// Module `triad`: PROVED lemmas (nothing assumed) about the right-handed orthonormal triad that
// Frame::frame builds from two edge vectors a, b of a triangle:
//     e1 = a / |a|,   e2 = (a x b) / |a x b|,   e3 = e1 x e2
// and about the rotation R = D * B^T that carries the triad B of the source triangle onto the triad D of the
// target triangle (property C17).  Everything is real arithmetic; divisions are avoided: "u = v / k" is stated as
// "k * u == v" with k > 0.  Polynomial identities are staged through scalar lemmas (one by(nonlinear_arith) each).
// ---------------------------------------------------------------------------
pub mod triad {
use vstd::prelude::*;
use super::na::*;
use super::linalg::*;
use super::polyid::*;
use super::detmul::*;

// ---- scalar facts --------------------------------------------------------------------------------
pub proof fn lemma_cancel(k: real, x: real, y: real)
    requires k != 0real, k * x == k * y
    ensures x == y
{ assert(x == y) by(nonlinear_arith) requires k != 0real, k * x == k * y; }
pub proof fn lemma_zero_prod(k: real, x: real)
    requires k != 0real, k * x == 0real
    ensures x == 0real
{ assert(x == 0real) by(nonlinear_arith) requires k != 0real, k * x == 0real; }
/// the positive square root is unique
pub proof fn lemma_sqrt_unique(p: real, q: real)
    requires p > 0real, q > 0real, p * p == q * q
    ensures p == q
{ assert(p == q) by(nonlinear_arith) requires p > 0real, q > 0real, p * p == q * q; }
pub proof fn lemma_mul_pos(p: real, q: real)
    requires p > 0real, q > 0real
    ensures p * q > 0real
{ assert(p * q > 0real) by(nonlinear_arith) requires p > 0real, q > 0real; }
pub proof fn lemma_sq_prod(p: real, q: real)
    ensures (p * q) * (p * q) == (p * p) * (q * q)
{ assert((p * q) * (p * q) == (p * p) * (q * q)) by(nonlinear_arith); }

// ---- cross product identities (scalar form, then vector form) -----------------------------------------
proof fn lemma_triple0_s(ax: real, ay: real, az: real, bx: real, by: real, bz: real)
    ensures ax * (ay * bz - az * by) + ay * (az * bx - ax * bz) + az * (ax * by - ay * bx) == 0real,
            bx * (ay * bz - az * by) + by * (az * bx - ax * bz) + bz * (ax * by - ay * bx) == 0real,
{
    assert(ax * (ay * bz - az * by) + ay * (az * bx - ax * bz) + az * (ax * by - ay * bx) == 0real) by(nonlinear_arith);
    assert(bx * (ay * bz - az * by) + by * (az * bx - ax * bz) + bz * (ax * by - ay * bx) == 0real) by(nonlinear_arith);
}
/// a x b is orthogonal to a and to b
pub proof fn lemma_cross_orth(a: V3, b: V3)
    ensures vdot(a, vcross(a, b)) == 0real, vdot(b, vcross(a, b)) == 0real,
            vdot(vcross(a, b), a) == 0real, vdot(vcross(a, b), b) == 0real,
{
    lemma_triple0_s(a.x, a.y, a.z, b.x, b.y, b.z);
    lemma_vdot_comm(a, vcross(a, b)); lemma_vdot_comm(b, vcross(a, b));
}
/// Lagrange: |a x b|^2 == |a|^2 |b|^2 - (a.b)^2
pub proof fn lemma_lagrange(a: V3, b: V3)
    ensures vnorm2(vcross(a, b)) == vnorm2(a) * vnorm2(b) - vdot(a, b) * vdot(a, b)
{ lemma_lagrange_g(a.x, a.y, a.z, b.x, b.y, b.z); }
/// a x (a x b) == a (a.b) - b (a.a)
pub proof fn lemma_bac_cab(a: V3, b: V3)
    ensures vcross(a, vcross(a, b)) == vsub(vscale(vdot(a, b), a), vscale(vnorm2(a), b))
{
    lemma_bac_cab_g(a.x, a.y, a.z, b.x, b.y, b.z);
    lemma_bac_cab_g(a.y, a.z, a.x, b.y, b.z, b.x);
    lemma_bac_cab_g(a.z, a.x, a.y, b.z, b.x, b.y);
    let l = vcross(a, vcross(a, b)); let r = vsub(vscale(vdot(a, b), a), vscale(vnorm2(a), b));
    lemma_comm(vdot(a, b), a.x); lemma_comm(vdot(a, b), a.y); lemma_comm(vdot(a, b), a.z);
    lemma_comm(vnorm2(a), b.x); lemma_comm(vnorm2(a), b.y); lemma_comm(vnorm2(a), b.z);
    assert(l.x == r.x);
    assert(l.y == r.y) by {
        // cyclic instance: a.z*(a.y*b.z - a.z*b.y) - a.x*(a.x*b.y - a.y*b.x) == a.y*(a.b) - b.y*(a.a)
        assert(a.y * b.y + a.z * b.z + a.x * b.x == vdot(a, b));
        assert(a.y * a.y + a.z * a.z + a.x * a.x == vnorm2(a));
    }
    assert(l.z == r.z) by {
        assert(a.z * b.z + a.x * b.x + a.y * b.y == vdot(a, b));
        assert(a.z * a.z + a.x * a.x + a.y * a.y == vnorm2(a));
    }
}
/// (k u) x (m w) == (k m) (u x w)
pub proof fn lemma_cross_scale(k: real, u: V3, m: real, w: V3)
    ensures vcross(vscale(k, u), vscale(m, w)) == vscale(k * m, vcross(u, w))
{
    lemma_scale_cross_g(k, m, u.y, w.z, u.z, w.y);
    lemma_scale_cross_g(k, m, u.z, w.x, u.x, w.z);
    lemma_scale_cross_g(k, m, u.x, w.y, u.y, w.x);
}
/// (k u) . v == k (u . v)
pub proof fn lemma_vdot_scale_l(k: real, u: V3, v: V3)
    ensures vdot(vscale(k, u), v) == k * vdot(u, v)
{ lemma_vdot_comm(vscale(k, u), v); lemma_vdot_scale(v, k, u); lemma_vdot_comm(v, u); }

// ---- small facts used to connect point triples with their edge vectors --------------------------------------
proof fn lemma_sq_diff(x: real, y: real)
    ensures (x - y) * (x - y) == x * x + y * y - 2real * (x * y), (x - y) * (x - y) == (y - x) * (y - x)
{
    assert((x - y) * (x - y) == x * x + y * y - 2real * (x * y)) by(nonlinear_arith);
    assert((x - y) * (x - y) == (y - x) * (y - x)) by(nonlinear_arith);
}
/// |a - b|^2 == |a|^2 + |b|^2 - 2 a.b   and   |a - b|^2 == |b - a|^2
pub proof fn lemma_polar(a: V3, b: V3)
    ensures vnorm2(vsub(a, b)) == vnorm2(a) + vnorm2(b) - 2real * vdot(a, b), vnorm2(vsub(a, b)) == vnorm2(vsub(b, a))
{
    lemma_sq_diff(a.x, b.x); lemma_sq_diff(a.y, b.y); lemma_sq_diff(a.z, b.z);
}
proof fn lemma_sumsq_zero(x: real, y: real, z: real)
    requires x * x + y * y + z * z == 0real
    ensures x == 0real && y == 0real && z == 0real
{
    assert(x * x >= 0real && y * y >= 0real && z * z >= 0real) by(nonlinear_arith);
    assert(x == 0real) by(nonlinear_arith) requires x * x == 0real;
    assert(y == 0real) by(nonlinear_arith) requires y * y == 0real;
    assert(z == 0real) by(nonlinear_arith) requires z * z == 0real;
}
/// a non-zero cross product needs a non-zero first factor
pub proof fn lemma_cross_nonzero(a: V3, b: V3)
    requires vnorm2(vcross(a, b)) != 0real
    ensures vnorm2(a) != 0real
{
    if vnorm2(a) == 0real {
        lemma_sumsq_zero(a.x, a.y, a.z);
        assert(vcross(a, b) == v3(0real, 0real, 0real)) by {
            assert(0real * b.z - 0real * b.y == 0real && 0real * b.x - 0real * b.z == 0real && 0real * b.y - 0real * b.x == 0real);
        }
    }
}
/// a non-negative number whose square is positive is positive
pub proof fn lemma_pos_of_sq(k: real)
    requires k >= 0real, k * k != 0real
    ensures k > 0real
{ if k == 0real { assert(k * k == 0real); } }

// ---- completeness of an orthonormal right-handed triad: u u^T + w w^T + (u x w)(u x w)^T == I -----------
proof fn lemma_complete_diag(u1: real, u2: real, u3: real, w1: real, w2: real, w3: real)
    requires u1 * u1 + u2 * u2 + u3 * u3 == 1real, w1 * w1 + w2 * w2 + w3 * w3 == 1real, u1 * w1 + u2 * w2 + u3 * w3 == 0real
    ensures u1 * u1 + w1 * w1 + (u2 * w3 - u3 * w2) * (u2 * w3 - u3 * w2) == 1real
{
    let t = u2 * w3 - u3 * w2;
    let p = u2 * u2 + u3 * u3; let q = w2 * w2 + w3 * w3; let s = u2 * w2 + u3 * w3;
    lemma_lagrange2_g(u2, u3, w2, w3);
    assert(t * t == p * q - s * s);
    let x = u1 * u1; let y = w1 * w1; let z = u1 * w1;
    assert(p == 1real - x && q == 1real - y && s == -z);
    lemma_sq_prod(u1, w1);
    assert(z * z == x * y);
    lemma_diag3_g(x, y);
    assert(s * s == z * z) by(nonlinear_arith) requires s == -z;
}
proof fn lemma_complete_off(u1: real, u2: real, u3: real, w1: real, w2: real, w3: real)
    requires u1 * u1 + u2 * u2 + u3 * u3 == 1real, w1 * w1 + w2 * w2 + w3 * w3 == 1real, u1 * w1 + u2 * w2 + u3 * w3 == 0real
    ensures u1 * u2 + w1 * w2 + (u2 * w3 - u3 * w2) * (u3 * w1 - u1 * w3) == 0real
{
    let xx = u3 * w3; let ww = w3 * w3; let uu = u3 * u3;
    // (u2 w3 - u3 w2)(u3 w1 - u1 w3) == u3 w3 (u2 w1 + u1 w2) - u1 u2 w3^2 - w1 w2 u3^2
    lemma_off1_g(u1, u2, u3, w1, w2, w3);
    assert(xx == -(u1 * w1) - u2 * w2 && ww == 1real - w1 * w1 - w2 * w2 && uu == 1real - u1 * u1 - u2 * u2);
    lemma_off3_g(u1, u2, w1, w2);
}
/// an orthonormal pair u, w
pub open spec fn orthonormal2(u: V3, w: V3) -> bool { vnorm2(u) == 1real && vnorm2(w) == 1real && vdot(u, w) == 0real }
/// the matrix whose ROWS are u, w, u x w
pub open spec fn triad_rows(u: V3, w: V3) -> M3 { M3 { a: u, b: w, c: vcross(u, w) } }

/// the triad (u, w, u x w) of an orthonormal pair is a proper rotation matrix: rows AND columns orthonormal, determinant +1 (right-handed)
pub proof fn lemma_triad_proper(u: V3, w: V3)
    requires orthonormal2(u, w)
    ensures proper(triad_rows(u, w)), proper(mtr(triad_rows(u, w))), mdet(triad_rows(u, w)) == 1real, mdet(mtr(triad_rows(u, w))) == 1real
{
    let t = vcross(u, w); let m = triad_rows(u, w);
    // rows orthonormal: M M^T == I
    lemma_cross_orth(u, w);
    lemma_lagrange(u, w);
    assert(vnorm2(t) == 1real) by { assert(1real * 1real - 0real * 0real == 1real); }
    lemma_vdot_comm(u, w); lemma_vdot_comm(u, t); lemma_vdot_comm(w, t);
    let mt = mtr(m);
    assert(mcol(mt, 0) == u && mcol(mt, 1) == w && mcol(mt, 2) == t);
    assert(mmul(m, mt) == mid());
    // columns orthonormal: M^T M == I  (completeness)
    lemma_complete_diag(u.x, u.y, u.z, w.x, w.y, w.z);
    lemma_complete_diag(u.y, u.z, u.x, w.y, w.z, w.x);
    lemma_complete_diag(u.z, u.x, u.y, w.z, w.x, w.y);
    lemma_complete_off(u.x, u.y, u.z, w.x, w.y, w.z);
    lemma_complete_off(u.y, u.z, u.x, w.y, w.z, w.x);
    lemma_complete_off(u.z, u.x, u.y, w.z, w.x, w.y);
    let g = mmul(mt, m);
    assert(mcol(m, 0) == v3(u.x, w.x, t.x) && mcol(m, 1) == v3(u.y, w.y, t.y) && mcol(m, 2) == v3(u.z, w.z, t.z));
    assert(g.a.x == 1real && g.b.y == 1real && g.c.z == 1real);
    assert(g.a.y == 0real);
    assert(g.b.z == 0real);
    assert(g.c.x == 0real);
    lemma_comm(u.x, u.y); lemma_comm(w.x, w.y); lemma_comm(t.x, t.y);
    lemma_comm(u.y, u.z); lemma_comm(w.y, w.z); lemma_comm(t.y, t.z);
    lemma_comm(u.z, u.x); lemma_comm(w.z, w.x); lemma_comm(t.z, t.x);
    assert(g.b.x == 0real && g.c.y == 0real && g.a.z == 0real);
    assert(g == mid());
    lemma_mtr_mtr(m);
    // determinant: det(rows u, w, u x w) == |u x w|^2 == 1, and det(M^T) == det(M)
    lemma_det_triad(u, w); lemma_det_tr(m);
    assert(mdet(m) == det3(u, w, t));
}

// ---- the triad of a triangle ------------------------------------------------------------------------
/// (e1, e2) is the normalised pair built from the edge vectors a, b:  la e1 == a,  ln e2 == a x b,  la = |a| > 0, ln = |a x b| > 0
pub open spec fn triad_of(a: V3, b: V3, la: real, ln: real, e1: V3, e2: V3) -> bool {
    &&& la > 0real && la * la == vnorm2(a) && vscale(la, e1) == a
    &&& ln > 0real && ln * ln == vnorm2(vcross(a, b)) && vscale(ln, e2) == vcross(a, b)
}
pub proof fn lemma_triad_orthonormal(a: V3, b: V3, la: real, ln: real, e1: V3, e2: V3)
    requires triad_of(a, b, la, ln, e1, e2)
    ensures orthonormal2(e1, e2)
{
    let n = vcross(a, b);
    // la^2 (e1.e1) == a.a == la^2
    lemma_vdot_scale_l(la, e1, vscale(la, e1)); lemma_vdot_scale(e1, la, e1);
    assert(vnorm2(a) == la * (la * vnorm2(e1)));
    assert(la * (la * vnorm2(e1)) == (la * la) * vnorm2(e1)) by(nonlinear_arith);
    lemma_mul_pos(la, la);
    assert(vnorm2(e1) == 1real) by { lemma_cancel(la * la, vnorm2(e1), 1real); }
    lemma_vdot_scale_l(ln, e2, vscale(ln, e2)); lemma_vdot_scale(e2, ln, e2);
    assert(vnorm2(n) == ln * (ln * vnorm2(e2)));
    assert(ln * (ln * vnorm2(e2)) == (ln * ln) * vnorm2(e2)) by(nonlinear_arith);
    lemma_mul_pos(ln, ln);
    assert(vnorm2(e2) == 1real) by { lemma_cancel(ln * ln, vnorm2(e2), 1real); }
    // la ln (e1.e2) == a.(a x b) == 0
    lemma_cross_orth(a, b);
    lemma_vdot_scale_l(la, e1, vscale(ln, e2)); lemma_vdot_scale(e1, ln, e2);
    assert(la * (ln * vdot(e1, e2)) == 0real);
    assert(la * (ln * vdot(e1, e2)) == (la * ln) * vdot(e1, e2)) by(nonlinear_arith);
    lemma_mul_pos(la, ln);
    lemma_zero_prod(la * ln, vdot(e1, e2));
}
/// (p - q) . b == p . b - q . b
pub proof fn lemma_vdot_sub(p: V3, q: V3, b: V3)
    ensures vdot(vsub(p, q), b) == vdot(p, b) - vdot(q, b)
{
    assert((p.x - q.x) * b.x == p.x * b.x - q.x * b.x) by(nonlinear_arith);
    assert((p.y - q.y) * b.y == p.y * b.y - q.y * b.y) by(nonlinear_arith);
    assert((p.z - q.z) * b.z == p.z * b.z - q.z * b.z) by(nonlinear_arith);
}
/// coordinates of a in its own triad: (la, 0, 0).  (The vector operations are kept opaque in these lemmas: everything is
/// congruence plus linear arithmetic over inner products; with the definitions unfolded the query was unstable under other solver seeds.)
pub proof fn lemma_triad_coords_a(a: V3, b: V3, la: real, ln: real, e1: V3, e2: V3)
    requires triad_of(a, b, la, ln, e1, e2)
    ensures vdot(e1, a) == la, vdot(e2, a) == 0real, vdot(vcross(e1, e2), a) == 0real
{
    hide(vdot); hide(vscale); hide(vcross);
    let e3 = vcross(e1, e2);
    lemma_triad_orthonormal(a, b, la, ln, e1, e2);
    lemma_cross_orth(a, b); lemma_cross_orth(e1, e2);
    lemma_vdot_scale(e1, la, e1);
    lemma_vdot_scale_l(ln, e2, a);
    lemma_vdot_scale(e3, la, e1);
    assert(vdot(e1, a) == la * 1real);
    assert(ln * vdot(e2, a) == 0real);
    lemma_zero_prod(ln, vdot(e2, a));
    assert(vdot(e3, a) == la * 0real);
}
/// coordinates of b in the triad of (a, b): (a.b / la, 0, e3.b) with (la ln) (e3.b) == (a.b)^2 - |a|^2 |b|^2
pub proof fn lemma_triad_coords_b(a: V3, b: V3, la: real, ln: real, e1: V3, e2: V3)
    requires triad_of(a, b, la, ln, e1, e2)
    ensures vdot(e2, b) == 0real, la * vdot(e1, b) == vdot(a, b),
        (la * ln) * vdot(vcross(e1, e2), b) == vdot(a, b) * vdot(a, b) - vnorm2(a) * vnorm2(b),
{
    hide(vdot); hide(vscale); hide(vcross); hide(vsub);
    let n = vcross(a, b); let e3 = vcross(e1, e2);
    lemma_cross_orth(a, b);
    lemma_vdot_scale_l(ln, e2, b);
    lemma_vdot_scale_l(la, e1, b);
    // (la ln) e3 == a x (a x b) == a (a.b) - b (a.a)
    lemma_cross_scale(la, e1, ln, e2);
    lemma_bac_cab(a, b);
    let p = vscale(vdot(a, b), a); let q = vscale(vnorm2(a), b);
    lemma_vdot_scale_l(la * ln, e3, b);
    lemma_vdot_scale_l(vdot(a, b), a, b); lemma_vdot_scale_l(vnorm2(a), b, b);
    lemma_vdot_sub(p, q, b);
    assert(ln * vdot(e2, b) == 0real);
    lemma_zero_prod(ln, vdot(e2, b));
    assert(vscale(la * ln, e3) == vsub(p, q));
}
/// coordinates of a and b in their own triad
pub proof fn lemma_triad_coords(a: V3, b: V3, la: real, ln: real, e1: V3, e2: V3)
    requires triad_of(a, b, la, ln, e1, e2)
    ensures
        mvec(triad_rows(e1, e2), a) == v3(la, 0real, 0real),
        vdot(e2, b) == 0real,
        la * vdot(e1, b) == vdot(a, b),
        (la * ln) * vdot(vcross(e1, e2), b) == vdot(a, b) * vdot(a, b) - vnorm2(a) * vnorm2(b),
        mvec(triad_rows(e1, e2), b) == v3(vdot(e1, b), 0real, vdot(vcross(e1, e2), b)),
{
    hide(vdot); hide(vcross);
    lemma_triad_coords_a(a, b, la, ln, e1, e2);
    lemma_triad_coords_b(a, b, la, ln, e1, e2);
}

/// C17, the geometric core: for congruent triangles (edge vectors a, b and c, d with equal lengths and equal inner product) the
/// matrix R = D * B^T built from the two triads is a proper rotation (orthogonal, determinant +1) and maps a onto c and b onto d.
/// B = columns (e1, e2, e1 x e2), D = columns (d1, d2, d1 x d2).
pub proof fn lemma_frame_rotation(a: V3, b: V3, la: real, ln: real, e1: V3, e2: V3, c: V3, d: V3, lc: real, lm: real, d1: V3, d2: V3)
    requires
        triad_of(a, b, la, ln, e1, e2), triad_of(c, d, lc, lm, d1, d2),
        vnorm2(a) == vnorm2(c), vnorm2(b) == vnorm2(d), vdot(a, b) == vdot(c, d),
    ensures ({
        let bm = mtr(triad_rows(e1, e2)); let dm = mtr(triad_rows(d1, d2)); let r = mmul(dm, mtr(bm));
        proper(r) && mdet(r) == 1real && mvec(r, a) == c && mvec(r, b) == d
    })
{
    let bt = triad_rows(e1, e2); let dt = triad_rows(d1, d2);
    let bm = mtr(bt); let dm = mtr(dt); let r = mmul(dm, mtr(bm));
    lemma_mtr_mtr(bt); lemma_mtr_mtr(dt);
    assert(mtr(bm) == bt);
    lemma_triad_orthonormal(a, b, la, ln, e1, e2); lemma_triad_orthonormal(c, d, lc, lm, d1, d2);
    lemma_triad_proper(e1, e2); lemma_triad_proper(d1, d2);
    lemma_proper_mul(dm, bt);
    lemma_det_mul(dm, bt);
    assert(mdet(r) == 1real) by { assert(1real * 1real == 1real); }
    // equal lengths
    lemma_sqrt_unique(la, lc);
    lemma_lagrange(a, b); lemma_lagrange(c, d);
    assert(vnorm2(vcross(a, b)) == vnorm2(vcross(c, d)));
    lemma_sqrt_unique(ln, lm);
    // coordinates in the triads
    lemma_triad_coords(a, b, la, ln, e1, e2); lemma_triad_coords(c, d, lc, lm, d1, d2);
    let e3 = vcross(e1, e2); let d3 = vcross(d1, d2);
    assert(vdot(e1, b) == vdot(d1, d)) by { lemma_cancel(la, vdot(e1, b), vdot(d1, d)); }
    lemma_mul_pos(la, ln);
    assert(vdot(e3, b) == vdot(d3, d)) by { lemma_cancel(la * ln, vdot(e3, b), vdot(d3, d)); }
    // R a == D (B^T a) == D (la, 0, 0) == D (D^T c) == c ;  R b == D (B^T b) == D (D^T d) == d
    lemma_mvec_assoc(dm, bt, a); lemma_mvec_assoc(dm, bt, b);
    lemma_mvec_assoc(dm, dt, c); lemma_mvec_assoc(dm, dt, d);
    lemma_mid(dm, c); lemma_mid(dm, d);
    assert(mmul(dm, dt) == mid());
    assert(mvec(bt, a) == mvec(dt, c));
    assert(mvec(bt, b) == mvec(dt, d));
}
} // mod triad
