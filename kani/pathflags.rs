//@append src/path_plan/cartesian.rs
// Engine B (Kani): the bitflags-2 operator semantics that the Verus model of PathFlags (rule BF) ASSUMES,
// checked on the REAL macro expansion for ALL 2^32 x 2^32 bit patterns (loop-free: a complete proof).
use super::*;

// O-C12-bitflags-model
// | and & keep every bit, ! truncates to the declared flags, contains / intersects / is_empty are the bit tests
#[kani::proof]
fn pathflags_model() {
    let x: u32 = kani::any();
    let y: u32 = kani::any();
    let a = PathFlags::from_bits_retain(x);
    let b = PathFlags::from_bits_retain(y);
    assert!(a.bits() == x);
    assert!((a | b).bits() == (x | y));
    assert!((a & b).bits() == (x & y));
    assert!((!a).bits() == (!x & PathFlags::all().bits()));
    assert!(a.contains(b) == (x & y == y));
    assert!(a.intersects(b) == (x & y != 0));
    assert!(a.is_empty() == (x == 0));
    // the composite constants are the unions their definitions spell out
    assert!(PathFlags::ORIGINAL.bits() == (PathFlags::TRACE.bits() | PathFlags::LAND.bits() | PathFlags::PARK.bits()));
    assert!(PathFlags::CARTESIAN.bits() == (PathFlags::LIN_INTERP.bits() | PathFlags::LAND.bits() | PathFlags::PARK.bits()));
    // every declared flag lies inside all()
    assert!(PathFlags::all().bits() & PathFlags::DEBUG.bits() == PathFlags::DEBUG.bits());
    assert!(PathFlags::all().bits() & PathFlags::ALTERED.bits() == PathFlags::ALTERED.bits());
}
