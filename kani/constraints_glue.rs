//@append src/constraints.rs
// Engine B (Kani) glue contracts for constraints.rs.  Floats are only copied and compared
// bit-wise; the arithmetic kernel `inside_bounds` is an oracle here and proved by engine A.
use super::*;

static mut LOG: [(u64, u64, u64); 6] = [(0, 0, 0); 6];
static mut RET: [bool; 6] = [false; 6];
static mut N: usize = 0;

fn inside_bounds_oracle(a: f64, c: f64, t: f64) -> bool {
    unsafe {
        let n = N;
        assert!(n < 6);
        LOG[n] = (a.to_bits(), c.to_bits(), t.to_bits());
        N = n + 1;
        RET[n]
    }
}

// O-C07-compliant-glue
// compliant(angles) == short-circuit conjunction over i = 0..5, in index order, of
// inside_bounds(angles[i], centers[i], tolerances[i]) -- for ALL constraint/angle bit patterns.
#[kani::proof]
#[kani::stub(Constraints::inside_bounds, inside_bounds_oracle)]
#[kani::unwind(8)]
fn compliant_glue() {
    let c = Constraints { from: kani::any(), to: kani::any(), centers: kani::any(), tolerances: kani::any(), sorting_weight: kani::any() };
    let angles: [f64; 6] = kani::any();
    let rets: [bool; 6] = kani::any();
    unsafe { RET = rets; N = 0; }
    let r = c.compliant(&angles);
    let mut exp = true;
    let mut calls = 0;
    for i in 0..6 {
        if exp {
            calls += 1;
            unsafe {
                assert!(LOG[i] == (angles[i].to_bits(), c.centers[i].to_bits(), c.tolerances[i].to_bits()));
            }
            if !rets[i] { exp = false; }
        }
    }
    unsafe { assert!(N == calls); }
    assert!(r == exp);
    kani::cover!(r, "compliant can be true");
    kani::cover!(!r, "compliant can be false");
}
