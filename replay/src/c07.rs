//! C07 / C18: joint limits as arc membership modulo 2*pi; sampler compliance.
use crate::{Found, TWO_PI, rng::Rng, json};
use rs_opw_kinematics::constraints::Constraints;
use std::f64::consts::PI;

/// Oracle written from the statement of C07. Returns None when x is within `margin` of an arc end
/// (the statement keeps random reals 1e-9 away from the ends).
pub fn arc_accept(x: f64, from: f64, to: f64, margin: f64) -> Option<bool> {
    if from == to { return Some(true); }
    let w = if from < to { to - from } else { (to - from).rem_euclid(TWO_PI) };
    if w >= TWO_PI - margin { return if w >= TWO_PI + margin { Some(true) } else { None }; }
    // limits a whole number of turns apart up to rounding: zero width and full turn cannot be told apart
    if w < margin { return None; }
    let d = (x - from).rem_euclid(TWO_PI);   // position on the circle measured from `from`
    if (d - w).abs() < margin || d < margin || (TWO_PI - d) < margin { return None; }
    Some(d <= w)
}

fn check_one(from: f64, to: f64, x: f64, ctor: u8) -> Option<Found> {
    let exp = arc_accept(x, from, to, 1e-9)?;
    let fr = [from; 6];
    let tt = [to; 6];
    let c = match ctor {
        0 => Constraints::new(fr, tt, 0.0),
        1 => { let mut c = Constraints::new([0.1; 6], [0.2; 6], 0.5); c.update_range(fr, tt); if c.sorting_weight != 0.5 { return Some(Found { kind: "c07".into(), case: case(from, to, x, ctor), observed: "sorting_weight changed".into(), expected: "unchanged".into() }); } c }
        _ => Constraints::from_degrees([from.to_degrees()..=to.to_degrees(), from.to_degrees()..=to.to_degrees(), from.to_degrees()..=to.to_degrees(),
                                        from.to_degrees()..=to.to_degrees(), from.to_degrees()..=to.to_degrees(), from.to_degrees()..=to.to_degrees()], 0.0),
    };
    let (from_e, to_e) = (c.from[0], c.to[0]);
    let exp = if ctor == 2 { arc_accept(x, from_e, to_e, 1e-7)? } else { exp };
    let got = c.compliant(&[x; 6]);
    if got != exp {
        return Some(Found { kind: "c07".into(), case: case(from, to, x, ctor), observed: format!("compliant = {}", got), expected: format!("{} (arc membership modulo 2*pi)", exp) });
    }
    // centre accepted (finite tolerance and unconstrained alike)
    if !c.compliant(&c.centers) {
        return Some(Found { kind: "c07".into(), case: case(from, to, c.centers[0], ctor), observed: "centre rejected".into(), expected: "centre accepted".into() });
    }
    None
}

fn case(from: f64, to: f64, x: f64, ctor: u8) -> String {
    format!("{{\"from\": {:?}, \"to\": {:?}, \"angle\": {:?}, \"ctor\": {}}}", from, to, x, ctor)
}

fn check_sampler(from: f64, to: f64, draws: usize) -> Option<Found> {
    // positive width required by C18
    if from > to && ((from - to).rem_euclid(TWO_PI) < 1e-6 || (TWO_PI - (from - to).rem_euclid(TWO_PI)) < 1e-6) { return None; }
    let c = Constraints::new([from; 6], [to; 6], 0.0);
    for _ in 0..draws {
        let q = c.random_angles();
        for j in 0..6 {
            if let Some(false) = arc_accept(q[j], from, to, 1e-9) {
                return Some(Found { kind: "c18".into(), case: format!("{{\"from\": {:?}, \"to\": {:?}, \"draws\": {}}}", from, to, draws.max(2000)),
                                    observed: format!("sampled {} for joint {}", q[j], j), expected: "a value on the arc from..to modulo 2*pi".into() });
            }
        }
        if !c.compliant(&q) {
            return Some(Found { kind: "c18".into(), case: format!("{{\"from\": {:?}, \"to\": {:?}, \"draws\": {}}}", from, to, draws.max(2000)),
                                observed: format!("sampled {:?} rejected by compliant()", q), expected: "compliant".into() });
        }
    }
    None
}

pub fn search(seed: u64, _obls: &[String], sampler: bool) -> Option<Found> {
    let mut rng = Rng::new(seed);
    // 5-degree lattice on [-4pi, 4pi] for limits (coarser 15 deg first), angles on a 5-degree lattice offset by 1 deg
    let step = 15.0f64.to_radians();
    let n = (8.0 * PI / step) as i32;
    for i in 0..=n {
        for j in 0..=n {
            let from = -4.0 * PI + i as f64 * step;
            let to = -4.0 * PI + j as f64 * step;
            if sampler {
                if from.abs() <= TWO_PI + 1e-9 && to.abs() <= TWO_PI + 1e-9 {
                    if let Some(f) = check_sampler(from, to, 30) { return Some(f); }
                }
                continue;
            }
            let mut k = -4.0 * PI + 1.0f64.to_radians();
            while k <= 4.0 * PI {
                for ctor in 0..3u8 {
                    if let Some(f) = check_one(from, to, k, ctor) { return Some(f); }
                }
                k += 20.0f64.to_radians();
            }
        }
    }
    for _ in 0..200000 {
        let from = rng.range(-4.0 * PI, 4.0 * PI);
        let to = if rng.below(10) == 0 { from } else { rng.range(-4.0 * PI, 4.0 * PI) };
        if sampler {
            let (f2, t2) = (from / 2.0, to / 2.0);
            if let Some(f) = check_sampler(f2, t2, 20) { return Some(f); }
            continue;
        }
        let x = rng.range(-4.0 * PI, 4.0 * PI);
        let ctor = rng.below(3) as u8;
        if let Some(f) = check_one(from, to, x, ctor) { return Some(f); }
    }
    None
}

pub fn replay(kind: &str, case: &str) -> Option<Found> {
    let from = json::get_num(case, "from")?;
    let to = json::get_num(case, "to")?;
    if kind == "c18" {
        let draws = json::get_num(case, "draws").unwrap_or(2000.0) as usize;
        return check_sampler(from, to, draws);
    }
    let x = json::get_num(case, "angle")?;
    let ctor = json::get_num(case, "ctor").unwrap_or(0.0) as u8;
    check_one(from, to, x, ctor)
}
