//! minimal JSON helpers (no dependencies): enough to read the replay files written by bin/check
pub fn esc(s: &str) -> String { s.replace('\\', "\\\\").replace('"', "\\\"").replace('\n', " ") }

fn find_key(txt: &str, key: &str, from: usize) -> Option<usize> {
    let pat = format!("\"{}\"", key);
    txt[from..].find(&pat).map(|i| from + i + pat.len())
}
pub fn get_str(txt: &str, key: &str) -> Option<String> {
    let i = find_key(txt, key, 0)?;
    let rest = &txt[i..];
    let a = rest.find('"')? + 1;
    let b = rest[a..].find('"')? + a;
    Some(rest[a..b].to_string())
}
pub fn get_str_in(txt: &str, outer: &str, key: &str) -> Option<String> {
    let o = find_key(txt, outer, 0)?;
    let i = find_key(txt, key, o)?;
    let rest = &txt[i..];
    let a = rest.find('"')? + 1;
    let b = rest[a..].find('"')? + a;
    Some(rest[a..b].to_string())
}
pub fn get_obj_in(txt: &str, outer: &str, key: &str) -> Option<String> {
    let o = find_key(txt, outer, 0)?;
    let i = find_key(txt, key, o)?;
    let rest = &txt[i..];
    let a = rest.find('{')?;
    let mut depth = 0;
    for (k, ch) in rest[a..].char_indices() {
        if ch == '{' { depth += 1; }
        if ch == '}' { depth -= 1; if depth == 0 { return Some(rest[a..a + k + 1].to_string()); } }
    }
    None
}
/// numbers of a JSON array value `"key": [a, b, ...]`
pub fn get_nums(obj: &str, key: &str) -> Vec<f64> {
    if let Some(i) = find_key(obj, key, 0) {
        let rest = &obj[i..];
        if let (Some(a), Some(b)) = (rest.find('['), rest.find(']')) {
            return rest[a + 1..b].split(',').filter_map(|t| parse_f(t.trim())).collect();
        }
    }
    vec![]
}
pub fn get_num(obj: &str, key: &str) -> Option<f64> {
    let i = find_key(obj, key, 0)?;
    let rest = obj[i..].trim_start_matches(|c: char| c == ':' || c.is_whitespace());
    let end = rest.find(|c: char| c == ',' || c == '}' || c == ']').unwrap_or(rest.len());
    parse_f(rest[..end].trim())
}
fn parse_f(t: &str) -> Option<f64> {
    let t = t.trim_matches('"');
    match t { "NaN" => Some(f64::NAN), "inf" => Some(f64::INFINITY), "-inf" => Some(f64::NEG_INFINITY), _ => t.parse().ok() }
}
pub fn nums(v: &[f64]) -> String {
    let parts: Vec<String> = v.iter().map(|x| if x.is_finite() { format!("{:?}", x) } else { format!("\"{}\"", x) }).collect();
    format!("[{}]", parts.join(", "))
}
