//! tiny deterministic generator (xorshift64*), seeded by VERIF_SEED
pub struct Rng(pub u64);
impl Rng {
    pub fn new(seed: u64) -> Self { Rng(seed.wrapping_mul(0x9E3779B97F4A7C15) | 1) }
    pub fn next(&mut self) -> u64 {
        let mut x = self.0;
        x ^= x >> 12; x ^= x << 25; x ^= x >> 27;
        self.0 = x;
        x.wrapping_mul(0x2545F4914F6CDD1D)
    }
    pub fn unit(&mut self) -> f64 { (self.next() >> 11) as f64 / (1u64 << 53) as f64 }
    pub fn range(&mut self, lo: f64, hi: f64) -> f64 { lo + (hi - lo) * self.unit() }
    pub fn below(&mut self, n: usize) -> usize { (self.next() % n as u64) as usize }
}
