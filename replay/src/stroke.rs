//! C12: planned Cartesian stroke. Scenario-based oracle on the real planner (free space and with an obstacle on the stroke).
use crate::{Found, rng::Rng, json};
use crate::col::box_mesh;
use rs_opw_kinematics::cartesian::{Cartesian, PathFlags, DEFAULT_TRANSITION_COSTS};
use rs_opw_kinematics::collisions::{CheckMode, CollisionBody, SafetyDistances};
use rs_opw_kinematics::constraints::Constraints;
use rs_opw_kinematics::kinematic_traits::{Joints, Kinematics, Pose};
use rs_opw_kinematics::kinematics_with_shape::KinematicsWithShape;
use rs_opw_kinematics::parameters::opw_kinematics::Parameters;
use rs_opw_kinematics::rrt::RRTPlanner;
use nalgebra::{Isometry3, Translation3};

pub struct Scn { pub start: Joints, pub dx: f64, pub dz: f64, pub nsteps: usize, pub obstacle: bool, pub include_interp: bool, pub step_m: f64, pub cost_deg: f64, pub depth: usize, pub coef: f64, pub turn: f64 }
impl Scn {
    fn to_json(&self) -> String { format!("{{\"start\": {}, \"dx\": {:?}, \"dz\": {:?}, \"nsteps\": {}, \"obstacle\": {}, \"include_interp\": {}, \"step_m\": {:?}, \"cost_deg\": {:?}, \"depth\": {}, \"coef\": {:?}, \"turn\": {:?}}}",
        json::nums(&self.start), self.dx, self.dz, self.nsteps, self.obstacle, self.include_interp, self.step_m, self.cost_deg, self.depth, self.coef, self.turn) }
    fn from_json(o: &str) -> Option<Scn> { let s = json::get_nums(o, "start"); Some(Scn { start: [s[0], s[1], s[2], s[3], s[4], s[5]], dx: json::get_num(o, "dx")?, dz: json::get_num(o, "dz")?, nsteps: json::get_num(o, "nsteps")? as usize,
        obstacle: o.contains("\"obstacle\": true"), include_interp: o.contains("\"include_interp\": true"), step_m: json::get_num(o, "step_m")?, cost_deg: json::get_num(o, "cost_deg")?, depth: json::get_num(o, "depth")? as usize, coef: json::get_num(o, "coef").unwrap_or(1.0), turn: json::get_num(o, "turn").unwrap_or(0.0) }) }
}
pub fn robot(obstacle_at: Option<[f32; 3]>) -> KinematicsWithShape { robot_m(obstacle_at, 0.0) }
/// the same robot with a safety margin to the environment (0 = touch only)
pub fn robot_m(obstacle_at: Option<[f32; 3]>, margin: f32) -> KinematicsWithShape { robot_l(obstacle_at, margin, -180.0, 180.0) }
/// ... and with J1 limited to lo..hi degrees (non-wrapping when lo < hi; may reach beyond 180)
pub fn robot_l(obstacle_at: Option<[f32; 3]>, margin: f32, j1_lo: f64, j1_hi: f64) -> KinematicsWithShape {
    let h = 0.02f32;
    let links = [box_mesh([0.0; 3], [h, h, h], false), box_mesh([0.0; 3], [h, h, h], true), box_mesh([0.0; 3], [h, h, h], false), box_mesh([0.0; 3], [h, h, h], true), box_mesh([0.0; 3], [h, h, h], false), box_mesh([0.0; 3], [h, h, h], true)];
    let env = match obstacle_at { Some(c) => vec![CollisionBody { mesh: box_mesh(c, [0.04, 0.04, 0.04], true), pose: Isometry3::identity() }], None => vec![] };
    KinematicsWithShape::with_safety(Parameters::irb2400_10(), Constraints::from_degrees([j1_lo..=j1_hi, -180.0..=180.0, -180.0..=180.0, -180.0..=180.0, -180.0..=180.0, -180.0..=180.0], 0.0),
        links, box_mesh([0.0, 0.0, -0.2], [0.1, 0.1, 0.05], false), Isometry3::identity(), box_mesh([0.0, 0.0, 0.03], [0.01, 0.01, 0.03], true), Isometry3::from_parts(Translation3::new(0.0, 0.0, 0.06), nalgebra::UnitQuaternion::identity()),
        env, if margin > 0.0 { SafetyDistances { to_environment: margin, to_robot_default: 0.0, special_distances: std::collections::HashMap::new(), mode: CheckMode::FirstCollisionOnly } } else { SafetyDistances::standard(CheckMode::FirstCollisionOnly) })
}
pub fn check(s: &Scn) -> Option<(String, String)> {
    let free = robot(None);
    let land = free.forward(&s.start);
    let mut steps: Vec<Pose> = vec![];
    // the tool turns about its own axis by `turn` radians along the stroke (0 = pure translation)
    let rot = |f: f64| land.rotation * nalgebra::UnitQuaternion::from_axis_angle(&nalgebra::Vector3::z_axis(), s.turn * f);
    for k in 1..=s.nsteps { let f = k as f64 / (s.nsteps as f64 + 1.0); steps.push(Isometry3::from_parts(Translation3::new(land.translation.x + s.dx * f, land.translation.y, land.translation.z + s.dz * f), rot(f))); }
    let park = Isometry3::from_parts(Translation3::new(land.translation.x + s.dx, land.translation.y, land.translation.z + s.dz), rot(1.0));
    // obstacle: a box around the flange position half way along the stroke (the tool / link 6 must pass through it)
    let mid = Isometry3::from_parts(Translation3::new(land.translation.x + s.dx * 0.5, land.translation.y, land.translation.z + s.dz * 0.5), land.rotation);
    let flange = mid * Isometry3::translation(0.0, 0.0, -0.06);
    let k = if s.obstacle { robot(Some([flange.translation.x as f32, flange.translation.y as f32, flange.translation.z as f32])) } else { robot(None) };
    if k.collides(&s.start) { return None; }
    let planner = Cartesian { robot: &k, check_step_m: s.step_m, check_step_rad: 3.0f64.to_radians(), max_transition_cost: s.cost_deg.to_radians(), transition_coefficients: DEFAULT_TRANSITION_COSTS.map(|c| c * s.coef),
        linear_recursion_depth: s.depth, rrt: RRTPlanner { step_size_joint_space: 3.0f64.to_radians(), max_try: if s.cost_deg < 1.0 { 400 } else { 50 }, debug: false }, include_linear_interpolation: s.include_interp, debug: false };
    let mut from = s.start; from[0] += 0.05;     // the given start configuration: close to, but not equal to, a landing solution
    if k.collides(&from) { return None; }
    let r = planner.plan(&from, &land, steps.clone(), &park);
    let path = match r { Ok(p) => p, Err(_) => return None };
    // every waypoint collision free and within limits
    for (n, w) in path.iter().enumerate() {
        if k.collides(&w.joints) { return Some((format!("waypoint {} of {} {:?} collides", n, path.len(), w.joints), "every waypoint free of collisions".into())); }
        if let Some(c) = k.constraints() { if !c.compliant(&w.joints) { return Some((format!("waypoint {} outside the joint limits", n), "within limits".into())); } }
    }
    // landing, stroke and parking poses appear in order with their flags and are reproduced by forward kinematics
    let mut want: Vec<(Pose, PathFlags)> = vec![(land, PathFlags::LAND)]; for p in &steps { want.push((*p, PathFlags::TRACE)); } want.push((park, PathFlags::PARK));
    let mut wi = 0;
    for w in &path {
        let orig = w.flags.contains(PathFlags::LAND) || w.flags.contains(PathFlags::TRACE) || w.flags.contains(PathFlags::PARK);
        if orig && !w.flags.contains(PathFlags::LIN_INTERP) {
            if wi >= want.len() { return Some((format!("more LAND/TRACE/PARK waypoints than requested poses ({})", want.len()), "each requested pose exactly once, in order".into())); }
            if !w.flags.contains(want[wi].1) { return Some((format!("requested pose {} carries flags {:?}", wi, w.flags.bits()), "its own flag".into())); }
            let f = k.forward(&w.joints);
            let e = (f.translation.vector - want[wi].0.translation.vector).norm();
            if e > 1e-5 { return Some((format!("waypoint flagged as requested pose {} is {:e} m away from it", wi, e), "reproduced by forward kinematics".into())); }
            wi += 1;
        } else if orig && w.flags.contains(PathFlags::LIN_INTERP) {
            return Some((format!("an interpolated waypoint carries a LAND/TRACE/PARK flag (bits {:#b})", w.flags.bits()), "interpolated waypoints are LIN_INTERP only".into()));
        }
        if !s.include_interp && w.flags.contains(PathFlags::LIN_INTERP) { return Some(("LIN_INTERP waypoints present although include_linear_interpolation is false".into(), "interpolated waypoints only when requested".into())); }
    }
    if wi != want.len() { return Some((format!("{} of {} requested poses appear in the path", wi, want.len()), "all, in order".into())); }
    // the path starts at the given start configuration
    if std::env::var("VERIF_SKIP_START").is_err() && (0..6).any(|i| (path[0].joints[i] - from[i]).abs() > 1e-9) { return Some((format!("path starts at {:?}, the given start is {:?}", path[0].joints, from), "the path leads from the given start configuration".into())); }
    // linearity and transition cost of Cartesian waypoints
    let a = land.translation.vector; let b = park.translation.vector; let ab = b - a;
    for (n, w) in path.iter().enumerate() {
        let f = k.forward(&w.joints).translation.vector;
        let t = (f - a).dot(&ab) / ab.norm_squared();
        let off = (f - (a + ab * t)).norm();
        // ONBOARDING and ALTERED waypoints (RRT relocation) are not part of the Cartesian movement; neither is the move out of a detour
        let detour = |f: PathFlags| f.contains(PathFlags::ONBOARDING) || f.contains(PathFlags::ALTERED);
        let cart = !detour(w.flags) && (n == 0 || !detour(path[n - 1].flags));
        if n > 0 && cart && off > 1e-5 { return Some((format!("waypoint {} lies {:e} m off the straight stroke", n, off), "on the segment".into())); }
        if n > 0 && cart && (t < -1e-5 || t > 1.0 + 1e-5) { return Some((format!("waypoint {} lies on the line but outside the stroke segment (parameter {:.4})", n, t), "between the poses it interpolates".into())); }
        if s.include_interp && n > 0 && cart { let c: f64 = (0..6).map(|i| (path[n - 1].joints[i] - w.joints[i]).abs() * DEFAULT_TRANSITION_COSTS[i] * s.coef).sum(); /* independent of utils::transition_costs */ if c > s.cost_deg.to_radians() + 1e-9 { return Some((format!("transition {} -> {} costs {:.3} deg", n - 1, n, c.to_degrees()), format!("<= {} deg", s.cost_deg))); } }
    }
    None
}
pub fn search(seed: u64, budget: usize) -> Option<Found> {
    let mut rng = Rng::new(seed ^ 0xC12);
    for round in 0..budget {
        let start = [rng.range(-0.5, 0.5), rng.range(0.2, 0.6), rng.range(-0.3, 0.3), rng.range(-0.4, 0.4), rng.range(0.6, 1.2), rng.range(-0.5, 0.5)];
        let s = Scn { start, dx: rng.range(0.05, 0.2), dz: rng.range(-0.15, 0.15), nsteps: rng.below(3), obstacle: round % 3 == 1, include_interp: round % 2 == 0,
                      step_m: [0.01, 0.05, 0.1][rng.below(3)], cost_deg: [2.0, 4.0][rng.below(2)], depth: [4usize, 8][rng.below(2)], coef: [1.0, 1.0, 3.0, 0.5][rng.below(4)], turn: [0.0, 0.0, 0.6, -1.0][rng.below(4)] };
        // every fourth round: a cost limit so tight that the bisection gives up and the gaps are closed by RRT detours
        let s = if round % 4 == 3 { Scn { step_m: 0.04, cost_deg: 0.5, depth: 2, obstacle: false, ..s } } else { s };
        if let Some((o, e)) = check(&s) { return Some(Found { kind: "c12".into(), case: s.to_json(), observed: o, expected: e }); }
    }
    None
}
pub fn replay(case: &str) -> Option<Found> { let s = Scn::from_json(case)?; check(&s).map(|(o, e)| Found { kind: "c12".into(), case: case.into(), observed: o, expected: e }) }
