//! C13: joint-space RRT. Scenario-based oracle on the real planner (RRTPlanner::plan_rrt): an irb2400 with box
//! links, optionally a box obstacle near the straight joint-space line between start and goal.
use crate::{Found, rng::Rng, json};
use crate::stroke::{robot, robot_m, robot_l};
use rs_opw_kinematics::kinematic_traits::{Joints, Kinematics};
use rs_opw_kinematics::rrt::RRTPlanner;
use std::sync::atomic::AtomicBool;

pub struct Scn { pub start: Joints, pub goal: Joints, pub obstacle: bool, pub step_deg: f64, pub max_try: usize, pub cancelled: bool, pub margin: f64, pub j1_window: bool }
impl Scn {
    fn to_json(&self) -> String { format!("{{\"start\": {}, \"goal\": {}, \"obstacle\": {}, \"step_deg\": {:?}, \"max_try\": {}, \"cancelled\": {}, \"margin\": {:?}, \"j1_window\": {}}}",
        json::nums(&self.start), json::nums(&self.goal), self.obstacle, self.step_deg, self.max_try, self.cancelled, self.margin, self.j1_window) }
    fn from_json(o: &str) -> Option<Scn> { let s = json::get_nums(o, "start"); let g = json::get_nums(o, "goal");
        Some(Scn { start: [s[0], s[1], s[2], s[3], s[4], s[5]], goal: [g[0], g[1], g[2], g[3], g[4], g[5]], obstacle: o.contains("\"obstacle\": true"),
            step_deg: json::get_num(o, "step_deg")?, max_try: json::get_num(o, "max_try")? as usize, cancelled: o.contains("\"cancelled\": true"), margin: json::get_num(o, "margin").unwrap_or(0.0), j1_window: o.contains("\"j1_window\": true") }) }
}
pub fn check(s: &Scn) -> Option<(String, String)> {
    let free = robot(None);
    // obstacle: a box at the flange position of the joint-space midpoint (the straight line is blocked there)
    let mut mid = [0.0; 6]; for i in 0..6 { mid[i] = 0.5 * (s.start[i] + s.goal[i]); }
    let mp = free.forward(&mid) * nalgebra::Isometry3::translation(0.0, 0.0, -0.06);
    let k = if s.obstacle { robot_m(Some([mp.translation.x as f32, mp.translation.y as f32, mp.translation.z as f32]), s.margin as f32) } else { robot(None) };
    // J1 limited to 90 .. 270 degrees (non-wrapping limits that reach beyond +180): every node must lie inside them LITERALLY
    let k = if s.j1_window { robot_l(if s.obstacle { Some([mp.translation.x as f32, mp.translation.y as f32, mp.translation.z as f32]) } else { None }, 0.0, 90.0, 270.0) } else { k };
    if k.collides(&s.start) || k.collides(&s.goal) { return None; }
    let planner = RRTPlanner { step_size_joint_space: s.step_deg.to_radians(), max_try: s.max_try, debug: false };
    let stop = AtomicBool::new(s.cancelled);
    let r = planner.plan_rrt(&s.start, &s.goal, &k, &stop);
    if s.cancelled {
        return match r { Ok(p) => Some((format!("a path of {} nodes was returned although the cancellation flag was raised before planning", p.len()), "an error instead of a path".into())), Err(_) => None };
    }
    let path = match r { Ok(p) => p, Err(_) => return None };
    if path.is_empty() { return Some(("empty path".into(), "begins with start, ends with goal".into())); }
    if path[0] != s.start { return Some((format!("path begins with {:?}", path[0]), format!("the start vector {:?} exactly", s.start))); }
    if path[path.len() - 1] != s.goal { return Some((format!("path ends with {:?}", path[path.len() - 1]), format!("the goal vector {:?} exactly", s.goal))); }
    for (n, q) in path.iter().enumerate() {
        if k.collides(q) { return Some((format!("node {} of {} {:?} collides", n, path.len(), q), "every node reported collision-free by the same robot".into())); }
        if let Some(c) = k.constraints() { if !c.compliant(q) { return Some((format!("node {} {:?} outside the (non-wrapping) limits", n, q), "within limits".into())); } }
        if s.j1_window && (q[0] < 90.0f64.to_radians() - 1e-12 || q[0] > 270.0f64.to_radians() + 1e-12) { return Some((format!("node {} has J1 = {:.3} deg, outside the limits 90 .. 270 deg", n, q[0].to_degrees()), "with non-wrapping limits every node within limits".into())); }
    }
    let step = s.step_deg.to_radians();
    for n in 1..path.len() {
        let d: f64 = (0..6).map(|i| (path[n][i] - path[n - 1][i]).powi(2)).sum::<f64>().sqrt();
        if d > 3.0 * step * (1.0 + 1e-9) { return Some((format!("nodes {} and {} are {:.6} rad apart ({:.3} steps)", n - 1, n, d, d / step), "at most three planner steps".into())); }
    }
    None
}
pub fn search(seed: u64, budget: usize) -> Option<Found> {
    let mut r = Rng::new(seed ^ 0xC13);
    for n in 0..budget {
        let mut start = [0.0; 6]; let mut goal = [0.0; 6];
        for i in 0..6 { start[i] = r.range(-1.2, 1.2); goal[i] = start[i] + r.range(-0.8, 0.8); }
        let j1_window = n % 5 == 2;
        if j1_window { start[0] = r.range(1.65, 1.9); goal[0] = r.range(1.65, 4.6); }
        let s = Scn { start, goal, obstacle: n % 2 == 1 || j1_window, step_deg: [2.0, 3.0, 5.0][r.below(3)], max_try: [200, 1000][r.below(2)], cancelled: n % 7 == 6, margin: if n % 4 == 1 { 0.12 } else { 0.0 }, j1_window };
        if let Some((o, e)) = check(&s) { return Some(Found { kind: "c13".into(), case: s.to_json(), observed: o, expected: e }); }
    }
    None
}
pub fn replay(case: &str) -> Option<Found> { let s = Scn::from_json(case)?; check(&s).map(|(o, e)| Found { kind: "c13".into(), case: case.into(), observed: o, expected: e }) }
