//! C09 / C16: wrapper stacks (tool, base, frame, parallelogram) against an independent composition.
use crate::{Found, rng::Rng, json};
use crate::opw::{indep_fk, indep_links, rand_params, rand_joints, params_json, params_from, pose_err};
use rs_opw_kinematics::kinematic_traits::{Kinematics, Joints, Pose};
use rs_opw_kinematics::kinematics_impl::OPWKinematics;
use rs_opw_kinematics::parameters::opw_kinematics::Parameters;
use rs_opw_kinematics::tool::{Tool, Base};
use rs_opw_kinematics::frame::Frame;
use rs_opw_kinematics::parallelogram::Parallelogram;
use nalgebra::{Isometry3, Translation3, UnitQuaternion, Vector3};
use std::sync::Arc;

#[derive(Clone)]
pub enum W { Tool(Pose), Base(Pose), Frame(Pose), Par(usize, usize, f64) }

fn iso_json(p: &Pose) -> String {
    let t = p.translation.vector; let q = p.rotation;
    format!("[{:?}, {:?}, {:?}, {:?}, {:?}, {:?}, {:?}]", t.x, t.y, t.z, q.w, q.i, q.j, q.k)
}
fn iso_from(v: &[f64]) -> Pose {
    Isometry3::from_parts(Translation3::new(v[0], v[1], v[2]), UnitQuaternion::from_quaternion(nalgebra::Quaternion::new(v[3], v[4], v[5], v[6])))
}
fn rand_iso(rng: &mut Rng, axial: bool) -> Pose {
    if !axial && rng.below(5) == 0 {
        // a wrapper that only rotates (zero offset) or only shifts (identity rotation)
        let ax = nalgebra::Unit::new_normalize(Vector3::new(rng.range(-1.0, 1.0), rng.range(-1.0, 1.0), rng.range(-1.0, 1.0) + 0.01));
        return if rng.below(2) == 0 { Isometry3::from_parts(Translation3::new(0.0, 0.0, 0.0), UnitQuaternion::from_axis_angle(&ax, rng.range(-3.0, 3.0))) }
               else { Isometry3::from_parts(Translation3::new(rng.range(-0.3, 0.3), rng.range(-0.3, 0.3), rng.range(-0.3, 0.3)), UnitQuaternion::identity()) };
    }
    if axial {
        Isometry3::from_parts(Translation3::new(0.0, 0.0, rng.range(0.0, 0.4)), UnitQuaternion::from_axis_angle(&Vector3::z_axis(), rng.range(-3.0, 3.0)))
    } else {
        let ax = nalgebra::Unit::new_normalize(Vector3::new(rng.range(-1.0, 1.0), rng.range(-1.0, 1.0), rng.range(-1.0, 1.0) + 0.01));
        Isometry3::from_parts(Translation3::new(rng.range(-0.3, 0.3), rng.range(-0.3, 0.3), rng.range(-0.3, 0.3)), UnitQuaternion::from_axis_angle(&ax, rng.range(-3.0, 3.0)))
    }
}
pub struct Scn { pub p: Parameters, pub stack: Vec<W>, pub q: Joints, pub prev: Joints, pub j6: f64 }
impl Scn {
    fn to_json(&self) -> String {
        let st: Vec<String> = self.stack.iter().map(|w| match w {
            W::Tool(p) => format!("{{\"k\": \"tool\", \"iso\": {}}}", iso_json(p)),
            W::Base(p) => format!("{{\"k\": \"base\", \"iso\": {}}}", iso_json(p)),
            W::Frame(p) => format!("{{\"k\": \"frame\", \"iso\": {}}}", iso_json(p)),
            W::Par(d, c, s) => format!("{{\"k\": \"par\", \"iso\": [{}, {}, {:?}]}}", d, c, s),
        }).collect();
        format!("{{\"params\": {}, \"stack\": [{}], \"q\": {}, \"prev\": {}, \"j6\": {:?}}}", params_json(&self.p), st.join(", "), json::nums(&self.q), json::nums(&self.prev), self.j6)
    }
    fn from_json(obj: &str) -> Option<Scn> {
        let pj = json::get_obj_in(&format!("{{\"x\": {}}}", obj), "x", "params")?;
        let p = params_from(&pj);
        let mut stack = vec![];
        let sidx = obj.find("\"stack\"")?;
        let rest = &obj[sidx..];
        let end = rest.find("\"q\"")?;
        for part in rest[..end].split("{\"k\"").skip(1) {
            let kind = part.split('"').nth(1)?.to_string();
            let a = part.find('[')?; let b = part.find(']')?;
            let v: Vec<f64> = part[a + 1..b].split(',').filter_map(|t| t.trim().parse().ok()).collect();
            stack.push(match kind.as_str() { "tool" => W::Tool(iso_from(&v)), "base" => W::Base(iso_from(&v)), "frame" => W::Frame(iso_from(&v)), _ => W::Par(v[0] as usize, v[1] as usize, v[2]) });
        }
        let qv = json::get_nums(obj, "q"); let pv = json::get_nums(obj, "prev");
        Some(Scn { p, stack, q: [qv[0], qv[1], qv[2], qv[3], qv[4], qv[5]], prev: [pv[0], pv[1], pv[2], pv[3], pv[4], pv[5]], j6: json::get_num(obj, "j6").unwrap_or(0.0) })
    }
    fn build(&self) -> Arc<dyn Kinematics> {
        let mut r: Arc<dyn Kinematics> = Arc::new(OPWKinematics::new(self.p));
        for w in &self.stack {
            r = match w {
                W::Tool(t) => Arc::new(Tool { robot: r, tool: *t }),
                W::Base(b) => Arc::new(Base { robot: r, base: *b }),
                W::Frame(f) => Arc::new(Frame { robot: r, frame: *f }),
                W::Par(d, c, s) => Arc::new(Parallelogram { robot: r, driven: *d, coupled: *c, scaling: *s }),
            };
        }
        r
    }
    /// independent model: joints -> (tcp pose, link poses)
    fn model(&self, q: &Joints) -> (Pose, [Pose; 6]) {
        // couplings are applied outermost first when going inwards
        let mut j = *q;
        for w in self.stack.iter().rev() { if let W::Par(d, c, s) = w { j[*c] -= s * j[*d]; } }
        let mut links = indep_links(&self.p, &j);
        let mut tcp = indep_fk(&self.p, &j);
        for w in &self.stack {
            match w {
                W::Tool(t) => { tcp = tcp * t; }
                W::Frame(f) => { tcp = tcp * f; links[5] = links[5] * f; }
                W::Base(b) => { tcp = b * tcp; for l in links.iter_mut() { *l = b * *l; } }
                W::Par(..) => {}
            }
        }
        (tcp, links)
    }
}

pub fn check(s: &Scn) -> Option<(String, String)> {
    let r = s.build();
    let (tcp, links) = s.model(&s.q);
    let f = r.forward(&s.q);
    let (dt, da) = pose_err(&tcp, &f);
    if dt > 1e-9 || da > 1e-8 { return Some((format!("forward differs from base * robot * tool (coupling applied) by {:e} m / {:e} rad", dt, da), "equal".into())); }
    let lp = r.forward_with_joint_poses(&s.q);
    for i in 0..6 {
        let (dt, da) = pose_err(&links[i], &lp[i]);
        if dt > 1e-9 || da > 1e-8 { return Some((format!("link pose {} differs from the model by {:e} m / {:e} rad", i + 1, dt, da), "unchanged by a tool, pre-multiplied by a base, last one * frame".into())); }
    }
    let axial = s.stack.iter().all(|w| match w { W::Tool(t) | W::Frame(t) => t.translation.vector.x.abs() < 1e-12 && t.translation.vector.y.abs() < 1e-12 && (t.rotation * Vector3::z()).z > 1.0 - 1e-12, _ => true });
    let entries: Vec<(&str, Vec<Joints>)> = vec![
        ("inverse", r.inverse(&tcp)), ("inverse_continuing", r.inverse_continuing(&tcp, &s.prev)),
        ("inverse_5dof", r.inverse_5dof(&tcp, s.j6)), ("inverse_continuing_5dof", r.inverse_continuing_5dof(&tcp, &s.prev)),
    ];
    let has_par = s.stack.iter().any(|w| matches!(w, W::Par(..)));
    for (name, sols) in &entries {
        let five = name.contains("5dof");
        if five && !axial { continue; }
        for x in sols {
            let (back, _) = s.model(x);
            let (dt, da) = pose_err(&tcp, &back);
            if dt > 2e-5 { return Some((format!("{}: answer {:?} maps back {:e} m away from the requested pose", name, x, dt), "maps back onto the requested pose".into())); }
            if !five && da > 2e-5 { return Some((format!("{}: answer {:?} maps back {:e} rad away from the requested orientation", name, x, da), "maps back onto the requested pose".into())); }
            if five && !has_par {
                let want = if *name == "inverse_5dof" { s.j6 } else { s.prev[5] };
                if x[5] != want { return Some((format!("{}: J6 = {:?}", name, x[5]), format!("J6 = {:?} (caller's value)", want))); }
            }
        }
    }
    None
}

fn gen(rng: &mut Rng, what: &str, round: usize) -> Scn {
    let p = rand_params(rng);
    let q = rand_joints(rng, 2.0);
    let mut prev = q; for i in 0..6 { prev[i] += rng.range(-0.2, 0.2); }
    let mut stack = vec![];
    let depth = 1 + rng.below(3);
    let axial = round % 3 == 0;
    for _ in 0..depth {
        let k = if what == "c16" { if stack.is_empty() { 3 } else { rng.below(4) } } else { rng.below(3) };
        stack.push(match k {
            0 => W::Tool(rand_iso(rng, axial)), 1 => W::Base(rand_iso(rng, false)), 2 => W::Frame(rand_iso(rng, axial)),
            _ => { let d = rng.below(6); let mut c = rng.below(6); if c == d { c = (c + 1) % 6; } W::Par(d, c, [1.0, 0.5, -1.5, 2.0, -0.7][rng.below(5)]) }
        });
    }
    Scn { p, stack, q, prev, j6: rng.range(-3.0, 3.0) }
}
pub fn search(what: &str, seed: u64, budget: usize) -> Option<Found> {
    let mut rng = Rng::new(seed ^ 0xABCD);
    for round in 0..budget {
        let s = gen(&mut rng, what, round);
        if let Some((o, e)) = check(&s) { return Some(Found { kind: what.into(), case: s.to_json(), observed: o, expected: e }); }
    }
    None
}
pub fn replay(kind: &str, case: &str) -> Option<Found> {
    let s = Scn::from_json(case)?;
    check(&s).map(|(o, e)| Found { kind: kind.into(), case: case.into(), observed: o, expected: e })
}
