//! C10 / C11 / C14: collision verdicts against a brute-force pairwise check (statement of C10).
use crate::{Found, rng::Rng, json};
use crate::opw::{rand_joints, base_params};
use rs_opw_kinematics::collisions::{BaseBody, CheckMode, CollisionBody, RobotBody, SafetyDistances, NEVER_COLLIDES, TOUCH_ONLY};
use rs_opw_kinematics::constraints::Constraints;
use rs_opw_kinematics::kinematic_traits::{Kinematics, Joints, ENV_START_IDX, J_BASE, J_TOOL};
use rs_opw_kinematics::kinematics_with_shape::KinematicsWithShape;
use rs_opw_kinematics::kinematics_impl::OPWKinematics;
use nalgebra::{Isometry3, Point3, Translation3, UnitQuaternion, Vector3};
use parry3d::shape::TriMesh;
use std::collections::HashMap;

/// axis-aligned box mesh centred at c with half extents h; `fine` adds a vertex per face centre (more vertices)
pub fn box_mesh(c: [f32; 3], h: [f32; 3], fine: bool) -> TriMesh {
    let mut v = vec![];
    for dz in [-1.0f32, 1.0] { for dy in [-1.0f32, 1.0] { for dx in [-1.0f32, 1.0] { v.push(Point3::new(c[0] + dx * h[0], c[1] + dy * h[1], c[2] + dz * h[2])); } } }
    // vertex index = dx + 2 dy + 4 dz (0/1)
    let quads = [[0u32, 1, 3, 2], [4, 6, 7, 5], [0, 4, 5, 1], [2, 3, 7, 6], [0, 2, 6, 4], [1, 5, 7, 3]];
    let mut idx = vec![];
    for q in quads {
        if fine {
            let cpt = Point3::from((v[q[0] as usize].coords + v[q[1] as usize].coords + v[q[2] as usize].coords + v[q[3] as usize].coords) / 4.0);
            let ci = v.len() as u32; v.push(cpt);
            idx.push([q[0], q[1], ci]); idx.push([q[1], q[2], ci]); idx.push([q[2], q[3], ci]); idx.push([q[3], q[0], ci]);
        } else { idx.push([q[0], q[1], q[2]]); idx.push([q[0], q[2], q[3]]); }
    }
    TriMesh::new(v, idx).expect("box mesh")
}

pub struct Scn {
    pub robot_k: usize, pub q: Joints, pub link_h: f32, pub tool: bool, pub base: bool,
    pub env: Vec<([f32; 3], [f32; 3], bool)>, pub to_env: f32, pub to_robot: f32,
    pub special: Vec<((usize, usize), f32)>, pub mode: u8, pub near_special: Vec<((usize, usize), f32)>, pub near_env: f32,
    pub from: Joints, pub to: Joints, pub limits: Option<([f64; 6], [f64; 6])>,
}
fn pairs_json(v: &Vec<((usize, usize), f32)>) -> String { format!("[{}]", v.iter().map(|((a, b), d)| format!("[{}, {}, {:?}]", a, b, d)).collect::<Vec<_>>().join(", ")) }
fn pairs_from(obj: &str, key: &str) -> Vec<((usize, usize), f32)> {
    let mut out = vec![];
    if let Some(i) = obj.find(&format!("\"{}\"", key)) {
        let rest = &obj[i..];
        if let Some(a) = rest.find("[") {
            let mut depth = 0; let mut end = a;
            for (k, ch) in rest[a..].char_indices() { if ch == '[' { depth += 1; } if ch == ']' { depth -= 1; if depth == 0 { end = a + k; break; } } }
            for part in rest[a + 1..end].split("],") {
                let n: Vec<f64> = part.replace('[', "").replace(']', "").split(',').filter_map(|t| t.trim().parse().ok()).collect();
                if n.len() == 3 { out.push(((n[0] as usize, n[1] as usize), n[2] as f32)); }
            }
        }
    }
    out
}
impl Scn {
    fn to_json(&self) -> String {
        let env: Vec<String> = self.env.iter().map(|(c, h, f)| format!("[{:?}, {:?}, {:?}, {:?}, {:?}, {:?}, {}]", c[0], c[1], c[2], h[0], h[1], h[2], if *f { 1 } else { 0 })).collect();
        let lim = match &self.limits { Some((f, t)) => format!("[{}, {}]", json::nums(f), json::nums(t)), None => "null".into() };
        format!("{{\"robot\": {}, \"q\": {}, \"link_h\": {:?}, \"tool\": {}, \"base\": {}, \"env\": [{}], \"to_env\": {:?}, \"to_robot\": {:?}, \"special\": {}, \"mode\": {}, \"near_special\": {}, \"near_env\": {:?}, \"from\": {}, \"to\": {}, \"limits\": {}}}",
                self.robot_k, json::nums(&self.q), self.link_h, self.tool, self.base, env.join(", "), self.to_env, self.to_robot, pairs_json(&self.special), self.mode, pairs_json(&self.near_special), self.near_env,
                json::nums(&self.from), json::nums(&self.to), lim)
    }
    fn from_json(o: &str) -> Option<Scn> {
        let six = |v: Vec<f64>| -> Joints { [v[0], v[1], v[2], v[3], v[4], v[5]] };
        let mut env = vec![];
        if let Some(i) = o.find("\"env\"") { let rest = &o[i..]; let end = rest.find("\"to_env\"")?; for part in rest[..end].split("],") { let n: Vec<f64> = part.replace("\"env\":", "").replace('[', "").replace(']', "").split(',').filter_map(|t| t.trim().parse().ok()).collect(); if n.len() == 7 { env.push(([n[0] as f32, n[1] as f32, n[2] as f32], [n[3] as f32, n[4] as f32, n[5] as f32], n[6] > 0.5)); } } }
        let limits = if o.contains("\"limits\": null") { None } else { let i = o.find("\"limits\"")?; let n: Vec<f64> = o[i..].replace("\"limits\":", "").replace('[', "").replace(']', "").replace('}', "").split(',').filter_map(|t| t.trim().parse().ok()).collect(); Some((six(n[0..6].to_vec()), six(n[6..12].to_vec()))) };
        Some(Scn { robot_k: json::get_num(o, "robot")? as usize, q: six(json::get_nums(o, "q")), link_h: json::get_num(o, "link_h")? as f32,
                   tool: o.contains("\"tool\": true"), base: o.contains("\"base\": true"), env, to_env: json::get_num(o, "to_env")? as f32, to_robot: json::get_num(o, "to_robot")? as f32,
                   special: pairs_from(o, "special"), mode: json::get_num(o, "mode")? as u8, near_special: pairs_from(o, "near_special"), near_env: json::get_num(o, "near_env")? as f32,
                   from: six(json::get_nums(o, "from")), to: six(json::get_nums(o, "to")), limits })
    }
    fn safety(&self) -> SafetyDistances {
        SafetyDistances { to_environment: self.to_env, to_robot_default: self.to_robot, special_distances: SafetyDistances::distances(&self.special),
                          mode: match self.mode { 0 => CheckMode::FirstCollisionOnly, 1 => CheckMode::AllCollsions, _ => CheckMode::NoCheck } }
    }
    fn meshes(&self) -> ([TriMesh; 6], TriMesh, TriMesh) {
        let h = self.link_h;
        let links = [box_mesh([0.0, 0.0, 0.0], [h, h, h], false), box_mesh([0.0, 0.0, 0.0], [h, h, 1.5 * h], true), box_mesh([0.0, 0.0, 0.0], [h, h, h], false),
                     box_mesh([0.0, 0.0, 0.0], [0.8 * h, 0.8 * h, h], true), box_mesh([0.0, 0.0, 0.0], [0.7 * h, 0.7 * h, 0.7 * h], false), box_mesh([0.0, 0.0, 0.0], [0.5 * h, 0.5 * h, 0.5 * h], true)];
        (links, box_mesh([0.0, 0.0, 0.08], [0.02, 0.02, 0.08], true), box_mesh([0.0, 0.0, -0.1], [0.25, 0.25, 0.1], false))
    }
    fn body(&self) -> RobotBody {
        let (links, tool, base) = self.meshes();
        RobotBody { joint_meshes: links, tool: if self.tool { Some(tool) } else { None },
                    base: if self.base { Some(BaseBody { mesh: base, base_pose: Isometry3::identity() }) } else { None },
                    collision_environment: self.env.iter().map(|(c, h, f)| CollisionBody { mesh: box_mesh(*c, *h, *f), pose: Isometry3::identity() }).collect(),
                    safety: self.safety() }
    }
    fn kin(&self) -> OPWKinematics {
        match &self.limits { Some((f, t)) => OPWKinematics::new_with_constraints(base_params(self.robot_k), Constraints::new(*f, *t, 0.0)), None => OPWKinematics::new(base_params(self.robot_k)) }
    }
}

fn min_dist(special: &HashMap<(u16, u16), f32>, to_env: f32, to_robot: f32, a: usize, b: usize) -> f32 {
    if let Some(r) = special.get(&(a as u16, b as u16)) { return *r; }
    if let Some(r) = special.get(&(b as u16, a as u16)) { return *r; }
    if a >= ENV_START_IDX || b >= ENV_START_IDX { to_env } else { to_robot }
}

/// brute force from the statement: all relevant pairs, exemption = marked never-colliding, hit = intersects or closer than the pair's distance
pub fn brute(s: &Scn, body: &RobotBody, qs: &Joints, kin: &dyn Kinematics, special: &Vec<((usize, usize), f32)>, to_env: f32, to_robot: f32) -> (Vec<(usize, usize)>, Vec<(usize, usize)>) {
    let poses: Vec<Isometry3<f32>> = kin.forward_with_joint_poses(qs).iter().map(|p| p.cast::<f32>()).collect();
    let sp = SafetyDistances::distances(special);
    let mut parts: Vec<(usize, &TriMesh, Isometry3<f32>)> = vec![];
    for i in 0..6 { parts.push((i, &body.joint_meshes[i], poses[i])); }
    if let Some(t) = &body.tool { parts.push((J_TOOL, t, poses[5])); }
    if let Some(b) = &body.base { parts.push((J_BASE, &b.mesh, b.base_pose)); }
    for (e, o) in body.collision_environment.iter().enumerate() { parts.push((ENV_START_IDX + e, &o.mesh, o.pose)); }
    let relevant = |a: usize, b: usize| -> bool {
        let (a, b) = (a.min(b), a.max(b));
        if a < 6 && b < 6 { return b - a > 1; }
        if b >= ENV_START_IDX { return a < 6 || a == J_TOOL; }
        if a < 6 && b == J_TOOL { return a <= 3; }
        if a < 6 && b == J_BASE { return a >= 1; }
        a == J_TOOL && b == J_BASE
    };
    let mut hits = vec![]; let mut unsure = vec![];
    let _ = s;
    for x in 0..parts.len() { for y in (x + 1)..parts.len() {
        let (a, ma, pa) = (&parts[x].0, parts[x].1, &parts[x].2); let (b, mb, pb) = (&parts[y].0, parts[y].1, &parts[y].2);
        if !relevant(*a, *b) { continue; }
        let r = min_dist(&sp, to_env, to_robot, *a, *b);
        if r <= NEVER_COLLIDES { continue; }
        let d = parry3d::query::distance(pa, ma, pb, mb).unwrap();
        let touch = parry3d::query::intersection_test(pa, ma, pb, mb).unwrap();
        let hit = if r == TOUCH_ONLY { touch } else { d <= r };
        // margin: distances within 1e-4 of the threshold are not judged
        let near_thr = if r == TOUCH_ONLY { !touch && d < 1e-4 } else { (d - r).abs() < 1e-4 };
        let p = ((*a).min(*b), (*a).max(*b));
        if near_thr { unsure.push(p); } else if hit { hits.push(p); }
    } }
    hits.sort(); (hits, unsure)
}

pub fn check(s: &Scn, what: &str) -> Option<(String, String)> {
    let body = s.body(); let kin = s.kin();
    let (hits, unsure) = brute(s, &body, &s.q, &kin, &s.special, s.to_env, s.to_robot);
    let judge = |got: &Vec<(usize, usize)>, hits: &Vec<(usize, usize)>, unsure: &Vec<(usize, usize)>, mode: u8, what: &str| -> Option<(String, String)> {
        let mut g: Vec<(usize, usize)> = got.iter().map(|(a, b)| ((*a).min(*b), (*a).max(*b))).collect(); g.sort();
        for p in &g { if !hits.contains(p) && !unsure.contains(p) { return Some((format!("{} reports pair {:?} which the brute-force check finds free or exempt (brute-force hits {:?})", what, p, hits), "only pairs that really collide".into())); } }
        match mode {
            1 => { for p in hits { if !g.contains(p) { return Some((format!("{} misses colliding pair {:?} (reported {:?})", what, p, g), "exactly the colliding pairs".into())); } } }
            0 => { if !hits.is_empty() && g.is_empty() { return Some((format!("{} reports nothing although pairs {:?} collide", what, hits), "at least one of them".into())); } }
            _ => { if !g.is_empty() { return Some((format!("{} reports {:?} in no-check mode", what, g), "nothing".into())); } }
        }
        None
    };
    if what == "c10" {
        let det = body.collision_details(&s.q, &kin);
        if let Some(f) = judge(&det, &hits, &unsure, s.mode, "collision_details") { return Some(f); }
        let c = body.collides(&s.q, &kin);
        if s.mode == 2 { if c { return Some(("collides() is true in no-check mode".into(), "false".into())); } }
        else if unsure.is_empty() && c != !hits.is_empty() { return Some((format!("collides() = {} but brute-force hits are {:?}", c, hits), format!("{}", !hits.is_empty()))); }
        // near(): same check with another table
        let mut nsafe = s.safety(); nsafe.special_distances = SafetyDistances::distances(&s.near_special); nsafe.to_environment = s.near_env;
        let (nh, nu) = brute(s, &body, &s.q, &kin, &s.near_special, s.near_env, s.to_robot);
        let near = body.near(&s.q, &kin, &nsafe);
        if let Some(f) = judge(&near, &nh, &nu, s.mode, "near") { return Some(f); }
    }
    if what == "c14" && s.mode != 2 {
        if !hits.is_empty() || !unsure.is_empty() { return None; }   // initial must be collision-free
        let offered = body.non_colliding_offsets(&s.q, &s.from, &s.to, &kin);
        let mut expected = vec![];
        for j in 0..6 { for t in [&s.from, &s.to] {
            let mut c = s.q; c[j] = t[j];
            if let Some((f, tt)) = &s.limits { if !(0..6).all(|i| crate::c07::arc_accept(c[i], f[i], tt[i], 1e-9) != Some(false)) { continue; } }
            let (h, u) = brute(s, &body, &c, &kin, &s.special, s.to_env, s.to_robot);
            if !u.is_empty() { return None; }
            if h.is_empty() { expected.push(c); }
        } }
        for o in &offered { if !expected.iter().any(|e| e == o) { return Some((format!("offered neighbour {:?} is colliding or outside the limits", o), "only legal collision-free neighbours".into())); } }
        for e in &expected { if !offered.iter().any(|o| o == e) { return Some((format!("legal collision-free neighbour {:?} is withheld", e), "offered".into())); } }
    }
    if what == "c11" {
        // robot with shape: inverse* == underlying stack's solutions filtered by !collides, order kept
        let (links, tool, base) = s.meshes();
        let lim = s.limits.unwrap_or(([-3.1; 6], [3.1; 6]));
        let bt = Isometry3::from_parts(Translation3::new(0.1, -0.05, 0.2), UnitQuaternion::from_axis_angle(&Vector3::z_axis(), 0.3));
        let tt = Isometry3::from_parts(Translation3::new(0.0, 0.0, 0.1), UnitQuaternion::identity());
        let env: Vec<CollisionBody> = s.env.iter().map(|(c, h, f)| CollisionBody { mesh: box_mesh(*c, *h, *f), pose: Isometry3::identity() }).collect();
        let rs = KinematicsWithShape::with_safety(base_params(s.robot_k), Constraints::new(lim.0, lim.1, 0.0), links, base, bt, tool, tt, env, s.safety());
        let stack = rs.kinematics.clone();
        let pose = stack.forward(&s.q);
        if pose_diff(&rs.forward(&s.q), &pose) > 1e-12 { return Some(("forward differs from the underlying stack".into(), "equal".into())); }
        let prev = s.q;
        let pairs: Vec<(&str, Vec<Joints>, Vec<Joints>)> = vec![
            ("inverse", rs.inverse(&pose), stack.inverse(&pose)),
            ("inverse_continuing", rs.inverse_continuing(&pose, &prev), stack.inverse_continuing(&pose, &prev)),
            ("inverse_5dof", rs.inverse_5dof(&pose, 0.3), stack.inverse_5dof(&pose, 0.3)),
            ("inverse_continuing_5dof", rs.inverse_continuing_5dof(&pose, &prev), stack.inverse_continuing_5dof(&pose, &prev)),
        ];
        for (name, got, all) in pairs {
            let exp: Vec<Joints> = all.iter().filter(|x| !rs.collides(x)).cloned().collect();
            if got != exp { return Some((format!("{} returned {:?}", name, got), format!("the stack's solutions that do not collide, in order: {:?}", exp))); }
        }
    }
    None
}
fn pose_diff(a: &Isometry3<f64>, b: &Isometry3<f64>) -> f64 { (a.translation.vector - b.translation.vector).norm() + a.rotation.angle_to(&b.rotation) }

fn gen(rng: &mut Rng, what: &str, round: usize) -> Scn {
    let q = rand_joints(rng, 2.0);
    let mut env = vec![];
    for _ in 0..rng.below(3) { env.push(([rng.range(-1.2, 1.2) as f32, rng.range(-1.2, 1.2) as f32, rng.range(0.0, 1.5) as f32], [rng.range(0.05, 0.4) as f32, rng.range(0.05, 0.4) as f32, rng.range(0.05, 0.4) as f32], rng.below(2) == 0)); }
    if round % 5 == 0 { env.push(([0.0, 0.0, 1.0], [2.5, 2.5, 2.0], false)); }   // a cell around the robot (coarse box)
    let ids = [0usize, 1, 2, 3, 4, 5, J_TOOL, J_BASE, ENV_START_IDX, ENV_START_IDX + 1];
    let mut special = vec![];
    for _ in 0..rng.below(4) { let a = ids[rng.below(ids.len())]; let b = ids[rng.below(ids.len())]; if a != b { special.push(((a, b), [NEVER_COLLIDES, NEVER_COLLIDES, 0.05, 0.2, 0.0][rng.below(5)])); } }
    let mut near_special = vec![];
    for _ in 0..rng.below(3) { let a = ids[rng.below(ids.len())]; let b = ids[rng.below(ids.len())]; if a != b { near_special.push(((a, b), [NEVER_COLLIDES, 0.1, 0.3][rng.below(3)])); } }
    let mut from = [0.0; 6]; let mut to = [0.0; 6];
    for i in 0..6 { from[i] = q[i] - rng.range(0.05, 0.8); to[i] = q[i] + rng.range(0.05, 0.8); }
    let limits = if rng.below(2) == 0 { let mut f = [0.0; 6]; let mut t = [0.0; 6]; for i in 0..6 { f[i] = q[i] - rng.range(-0.2, 1.5); t[i] = q[i] + rng.range(0.1, 1.5); } Some((f, t)) } else { None };
    let _ = what;
    Scn { robot_k: rng.below(4), q, link_h: [0.03f32, 0.08, 0.15][rng.below(3)], tool: rng.below(3) != 0, base: rng.below(3) != 0, env,
          to_env: [0.0f32, 0.0, 0.05, 0.15][rng.below(4)], to_robot: [0.0f32, 0.0, 0.03, 0.1][rng.below(4)], special, mode: [1u8, 1, 0, 2][rng.below(4)],
          near_special, near_env: [0.1f32, 0.3][rng.below(2)], from, to, limits }
}
pub fn search(what: &str, seed: u64, budget: usize) -> Option<Found> {
    let mut rng = Rng::new(seed ^ 0x5EED);
    for round in 0..budget {
        let s = gen(&mut rng, what, round);
        if let Some((o, e)) = check(&s, what) { return Some(Found { kind: what.into(), case: s.to_json(), observed: o, expected: e }); }
    }
    None
}
pub fn replay(kind: &str, case: &str) -> Option<Found> {
    let s = Scn::from_json(case)?;
    check(&s, kind).map(|(o, e)| Found { kind: kind.into(), case: case.into(), observed: o, expected: e })
}
