//! C01, C04, C05, C06, C08, C09, C16: oracles on the real solver, with an INDEPENDENT forward model
//! (product of six elementary transforms, written from the statement of C03).
use crate::{Found, rng::Rng, json, TWO_PI};
use rs_opw_kinematics::constraints::Constraints;
use rs_opw_kinematics::kinematic_traits::{Kinematics, Joints, Pose, JOINTS_AT_ZERO};
use rs_opw_kinematics::kinematics_impl::OPWKinematics;
use rs_opw_kinematics::parameters::opw_kinematics::Parameters;
use nalgebra::{Isometry3, Translation3, UnitQuaternion, Vector3};
use std::f64::consts::PI;

pub fn indep_links(p: &Parameters, j: &Joints) -> [Pose; 6] {
    let q: Vec<f64> = (0..6).map(|i| j[i] * p.sign_corrections[i] as f64 - p.offsets[i]).collect();
    let t = [(0.0, 0.0, p.c1), (p.a1, p.b, 0.0), (0.0, 0.0, p.c2), (p.a2, 0.0, 0.0), (0.0, 0.0, p.c3), (0.0, 0.0, p.c4)];
    let ax = [Vector3::z_axis(), Vector3::y_axis(), Vector3::y_axis(), Vector3::z_axis(), Vector3::y_axis(), Vector3::z_axis()];
    let mut cur: Pose = Isometry3::identity();
    let mut out = [Isometry3::identity(); 6];
    for i in 0..6 {
        cur = cur * Isometry3::from_parts(Translation3::new(t[i].0, t[i].1, t[i].2), UnitQuaternion::from_axis_angle(&ax[i], q[i]));
        out[i] = cur;
    }
    out
}
pub fn indep_fk(p: &Parameters, j: &Joints) -> Pose { indep_links(p, j)[5] }

pub fn pose_err(a: &Pose, b: &Pose) -> (f64, f64) {
    ((a.translation.vector - b.translation.vector).norm(), a.rotation.angle_to(&b.rotation))
}

pub fn base_params(k: usize) -> Parameters {
    match k % 6 {
        0 => Parameters::irb2400_10(),
        1 => Parameters::staubli_tx2_160l(),
        2 => Parameters::kuka_kr6_r700_sixx(),
        3 => Parameters::fanuc_r2000ib_200r(),
        4 => Parameters::igus_rebel(),
        _ => Parameters::staubli_tx40(),
    }
}
pub fn rand_params(rng: &mut Rng) -> Parameters {
    let mut p = base_params(rng.below(6));
    match rng.below(5) {
        0 => {}
        // offsets beyond half a turn (e.g. KUKA-style 1.5*pi): the solver must still normalise into [-pi, pi]
        4 => { for i in 0..6 { if rng.below(2) == 0 { p.offsets[i] = rng.range(-6.0, 6.0); } } }
        1 => { for i in 0..6 { p.sign_corrections[i] = if rng.below(2) == 0 { 1 } else { -1 }; } }
        2 => { for i in 0..6 { p.offsets[i] = rng.range(-1.0, 1.0); p.sign_corrections[i] = if rng.below(2) == 0 { 1 } else { -1 }; } }
        _ => { p.offsets[4] = rng.range(-1.0, 1.0); p.sign_corrections[4] = if rng.below(2) == 0 { 1 } else { -1 }; p.b = rng.range(-0.1, 0.1); }
    }
    p
}
pub fn rand_joints(rng: &mut Rng, span: f64) -> Joints {
    let mut j = [0.0; 6];
    for i in 0..6 { j[i] = rng.range(-span, span); }
    j
}
pub fn params_json(p: &Parameters) -> String {
    format!("{{\"a1\": {:?}, \"a2\": {:?}, \"b\": {:?}, \"c1\": {:?}, \"c2\": {:?}, \"c3\": {:?}, \"c4\": {:?}, \"offsets\": {}, \"signs\": {}, \"dof\": {}}}",
            p.a1, p.a2, p.b, p.c1, p.c2, p.c3, p.c4, json::nums(&p.offsets), json::nums(&p.sign_corrections.map(|x| x as f64)), p.dof)
}
pub fn params_from(obj: &str) -> Parameters {
    let mut p = Parameters::new();
    p.a1 = json::get_num(obj, "a1").unwrap_or(0.0); p.a2 = json::get_num(obj, "a2").unwrap_or(0.0); p.b = json::get_num(obj, "b").unwrap_or(0.0);
    p.c1 = json::get_num(obj, "c1").unwrap_or(0.0); p.c2 = json::get_num(obj, "c2").unwrap_or(0.0); p.c3 = json::get_num(obj, "c3").unwrap_or(0.0);
    p.c4 = json::get_num(obj, "c4").unwrap_or(0.0);
    let o = json::get_nums(obj, "offsets"); let s = json::get_nums(obj, "signs");
    for i in 0..6 { p.offsets[i] = o[i]; p.sign_corrections[i] = s[i] as i8; }
    p.dof = json::get_num(obj, "dof").unwrap_or(6.0) as i8;
    p
}
fn six(v: &[f64]) -> Joints { [v[0], v[1], v[2], v[3], v[4], v[5]] }

/// the scenario that every OPW oracle replays: robot, optional limits, the joints that generate the pose, previous
pub struct Scn { pub p: Parameters, pub limits: Option<([f64; 6], [f64; 6], f64)>, pub q: Joints, pub prev: Joints, pub j6: f64 }
impl Scn {
    pub fn to_json(&self) -> String {
        let lim = match &self.limits { Some((f, t, w)) => format!("{{\"from\": {}, \"to\": {}, \"weight\": {:?}}}", json::nums(f), json::nums(t), w), None => "null".into() };
        format!("{{\"params\": {}, \"limits\": {}, \"q\": {}, \"prev\": {}, \"j6\": {:?}}}", params_json(&self.p), lim, json::nums(&self.q), json::nums(&self.prev), self.j6)
    }
    pub fn from_json(obj: &str) -> Option<Scn> {
        let pj = json::get_obj_in(obj, "case", "params").or_else(|| json::get_obj_in(&format!("{{\"case\": {}}}", obj), "case", "params"))?;
        let p = params_from(&pj);
        let q = six(&json::get_nums(obj, "q"));
        let prev = six(&json::get_nums(obj, "prev"));
        let j6 = json::get_num(obj, "j6").unwrap_or(0.0);
        let limits = if obj.contains("\"limits\": null") { None } else {
            let l = json::get_obj_in(&format!("{{\"x\": {}}}", obj), "x", "limits")?;
            Some((six(&json::get_nums(&l, "from")), six(&json::get_nums(&l, "to")), json::get_num(&l, "weight").unwrap_or(0.0)))
        };
        Some(Scn { p, limits, q, prev, j6 })
    }
    pub fn robot(&self) -> OPWKinematics {
        match &self.limits { Some((f, t, w)) => OPWKinematics::new_with_constraints(self.p, Constraints::new(*f, *t, *w)), None => OPWKinematics::new(self.p) }
    }
}

fn ang_diff(a: f64, b: f64) -> f64 { let d = (a - b).rem_euclid(TWO_PI); d.min(TWO_PI - d) }
fn same_mod(a: &Joints, b: &Joints, tol: f64) -> bool { (0..6).all(|i| ang_diff(a[i], b[i]) < tol) }

/// margins away from wrist, elbow and shoulder singularities and from the reach boundary
pub fn regular(p: &Parameters, q: &Joints) -> bool {
    let m: Vec<f64> = (0..6).map(|i| q[i] * p.sign_corrections[i] as f64 - p.offsets[i]).collect();
    if m[4].sin().abs() < 0.05 { return false; }
    let psi3 = p.a2.atan2(p.c3);
    if (m[2] + psi3).sin().abs() < 0.05 { return false; }
    let links = indep_links(p, q);
    let c = links[4].translation.vector;       // wrist centre
    if (c.x * c.x + c.y * c.y).sqrt() < 0.05 + p.b.abs() { return false; }
    true
}
pub fn regular_arm(p: &Parameters, q: &Joints) -> bool {
    let m: Vec<f64> = (0..6).map(|i| q[i] * p.sign_corrections[i] as f64 - p.offsets[i]).collect();
    let psi3 = p.a2.atan2(p.c3);
    if (m[2] + psi3).sin().abs() < 0.2 { return false; }
    let links = indep_links(p, q);
    let c = links[4].translation.vector;
    (c.x * c.x + c.y * c.y).sqrt() > 0.2 + p.b.abs()
}
const DT: f64 = 1.0e-6 * 1.13 + 1e-9;   // 1 um (+ the 0.125 um singularity shift the solver allows itself) + rounding slack
const AT: f64 = 1.0e-6 + 1e-9;

/// returns a description of the first violated clause, if any
pub fn check(s: &Scn, what: &str) -> Option<(String, String)> {
    let r = s.robot();
    let pose = indep_fk(&s.p, &s.q);
    let fk_model = |j: &Joints| indep_fk(&s.p, j);
    let six_dof = s.p.dof != 5;
    let entries: Vec<(&str, Vec<Joints>)> = vec![
        ("inverse", r.inverse(&pose)),
        ("inverse_continuing", r.inverse_continuing(&pose, &s.prev)),
        ("inverse_5dof", r.inverse_5dof(&pose, s.j6)),
        ("inverse_continuing_5dof", r.inverse_continuing_5dof(&pose, &s.prev)),
    ];
    for (name, sols) in &entries {
        let five = name.contains("5dof") || !six_dof;
        for x in sols {
            if what == "c01" || what == "c06" {
                if !x.iter().all(|v| v.is_finite()) { return Some((format!("{} returned non-finite {:?}", name, x), "finite joints".into())); }
                let (dt, da) = pose_err(&pose, &fk_model(x));
                if dt > DT { return Some((format!("{}: solution {:?} misses the position by {:e} m", name, x, dt), "<= 1 um".into())); }
                if !five && da > AT { return Some((format!("{}: solution {:?} misses the orientation by {:e} rad", name, x, da), "<= 1 urad".into())); }
                if five && what == "c01" {
                    // 5-DOF variants: "position and tool axis only"
                    let za = pose.rotation * Vector3::z(); let zb = fk_model(x).rotation * Vector3::z();
                    let ang = za.cross(&zb).norm().atan2(za.dot(&zb));
                    if ang > 2e-6 { return Some((format!("{}: solution {:?} has the tool axis off by {:e} rad", name, x, ang), "tool axis within 1 urad".into())); }
                }
                if *name == "inverse" && six_dof && x.iter().any(|v| v.abs() > PI + 1e-12) { return Some((format!("inverse returned un-normalised {:?}", x), "[-pi, pi]".into())); }
            }
            if what == "c06" && five {
                // tool axis (z of the flange) must coincide with the requested one
                let za = pose.rotation * Vector3::z();
                let zb = fk_model(x).rotation * Vector3::z();
                let ang = za.dot(&zb).clamp(-1.0, 1.0).acos();
                if ang > 2e-6 { return Some((format!("{}: solution {:?} has the tool axis off by {:e} rad", name, x, ang), "tool axis within 1 urad".into())); }
                let want = if *name == "inverse_5dof" { s.j6 } else if *name == "inverse" { 0.0 } else { s.prev[5] };
                if x[5].to_bits() != want.to_bits() && !(x[5] == want) { return Some((format!("{}: J6 = {:?}", name, x[5]), format!("J6 = {:?} (caller's value)", want))); }
            }
            if what == "c08" {
                if let Some((f, t, _)) = &s.limits {
                    for i in 0..6 {
                        if let Some(false) = crate::c07::arc_accept(x[i], f[i], t[i], 1e-9) {
                            return Some((format!("{} returned {:?}: joint {} outside its limits", name, x, i + 1), "every returned joint within limits".into()));
                        }
                    }
                }
            }
        }
        if what == "c06" && !six_dof && s.limits.is_none() && *name != "inverse_continuing" && sols.is_empty() && s.q[4].sin().abs() > 0.05 {
            // a 5-DOF robot must answer: the pose was generated from reachable joints
            return Some((format!("{} returned nothing for a reachable pose", name), "at least one solution".into()));
        }
    }
    if (what == "c06" || what == "c02") && s.limits.is_none() && regular(&s.p, &s.q) {
        // the originating configuration must be among the answers (modulo 2*pi; J1..J5 for the 5-DOF variants)
        let five = entries[2].1.iter().any(|x| (0..5).all(|i| ang_diff(x[i], s.q[i]) < 1e-6));
        if !five { return Some((format!("inverse_5dof lacks the originating J1..J5 {:?}", s.q), "originating configuration among the answers".into())); }
        if six_dof && !entries[0].1.iter().any(|x| same_mod(x, &s.q, 1e-6)) {
            return Some((format!("inverse lacks the originating configuration {:?}", s.q), "originating configuration among the answers".into()));
        }
    }
    if what == "c02" && six_dof && s.limits.is_none() && regular(&s.p, &s.q) {
        // the answer set is closed: it contains the wrist-flipped twin (J4+pi, -J5, J6-pi in MODEL angles) of each answer, and no duplicates
        let sols = &entries[0].1;
        let sg = |i: usize| s.p.sign_corrections[i] as f64;
        for x in sols {
            let mut tw = *x;
            tw[3] = x[3] + PI * sg(3);
            tw[4] = (-(x[4] * sg(4) - s.p.offsets[4]) + s.p.offsets[4]) * sg(4);
            tw[5] = x[5] - PI * sg(5);
            if !sols.iter().any(|y| same_mod(y, &tw, 1e-6)) { return Some((format!("inverse returns {:?} but not its wrist-flipped twin {:?}", x, tw), "contains the wrist-flipped twin of each answer".into())); }
        }
        for a in 0..sols.len() { for b in a + 1..sols.len() { if same_mod(&sols[a], &sols[b], 1e-9) { return Some((format!("inverse returns {:?} twice", sols[a]), "no duplicates".into())); } } }
    }
    if what == "c08" {
        if let Some((f, t, _)) = &s.limits {
            let free = OPWKinematics::new(s.p);
            let unl: Vec<(&str, Vec<Joints>)> = vec![("inverse", free.inverse(&pose)), ("inverse_5dof", free.inverse_5dof(&pose, s.j6))];
            for (name, us) in &unl {
                let lim = &entries.iter().find(|e| e.0 == *name).unwrap().1;
                for u in us {
                    let ok = (0..6).all(|i| crate::c07::arc_accept(u[i], f[i], t[i], 1e-6) == Some(true));
                    if ok && !lim.iter().any(|x| same_mod(x, u, 1e-9)) {
                        return Some((format!("{}: compliant solution {:?} of the unconstrained query is withheld", name, u), "returned".into()));
                    }
                }
            }
        }
    }
    if what == "c04" {
        // the 5-DOF continuation entry point: every angle is the representative nearest to previous (J6 IS previous J6)
        let prevr = if s.prev[0].is_nan() { match &s.limits { Some((f, t, w)) => Constraints::new(*f, *t, *w).centers, None => JOINTS_AT_ZERO } } else { s.prev };
        for x in &entries[3].1 { for i in 0..6 { if i == 5 && s.prev[0].is_nan() { continue; } if (x[i] - prevr[i]).abs() > PI + 1e-9 { return Some((format!("inverse_continuing_5dof: joint {} = {} is not the representative nearest to previous {}", i + 1, x[i], prevr[i]), "|x - prev| <= pi".into())); } } }
    }
    if what == "c04" && six_dof {
        let sols = &entries[1].1;
        let prevr = if s.prev[0].is_nan() { match &s.limits { Some((f, t, w)) => Constraints::new(*f, *t, *w).centers, None => JOINTS_AT_ZERO } } else { s.prev };
        for x in sols { for i in 0..6 { if (x[i] - prevr[i]).abs() > PI + 1e-9 { return Some((format!("inverse_continuing: joint {} = {} is not the representative nearest to previous {}", i + 1, x[i], prevr[i]), "|x - prev| <= pi".into())); } } }
        let (w, centers) = match &s.limits { Some((f, t, w)) => (*w, Constraints::new(*f, *t, *w).centers), None => (0.0, [0.0; 6]) };
        let cost = |x: &Joints| -> f64 { let dp: f64 = (0..6).map(|i| (x[i] - prevr[i]).abs()).sum(); let dc: f64 = (0..6).map(|i| (x[i] - centers[i]).abs()).sum(); if s.limits.is_some() { dp * (1.0 - w) + dc * w } else { dp } };
        for k in 1..sols.len() { if cost(&sols[k - 1]) > cost(&sols[k]) + 1e-9 { return Some((format!("inverse_continuing: solution {} (cost {}) precedes solution {} (cost {})", k - 1, cost(&sols[k - 1]), k, cost(&sols[k])), "non-decreasing cost".into())); } }
        let plain = r.inverse(&pose);
        for u in &plain { if !sols.iter().any(|x| same_mod(x, u, 1e-6)) { return Some((format!("inverse_continuing lacks the plain-inverse solution {:?}", u), "superset of inverse".into())); } }
    }
    if what == "c05" && six_dof && s.limits.is_none() {
        let q5m = s.q[4] * s.p.sign_corrections[4] as f64 - s.p.offsets[4];
        // previous realises the pose: equal to q, or J4 / J6 re-split with J4 + J6 kept modulo 2*pi (J4, J6 share the sign correction)
        let same_pose = (0..6).all(|i| i == 3 || i == 5 || s.prev[i] == s.q[i])
            && ang_diff(s.prev[3] + s.prev[5], s.q[3] + s.q[5]) < 1e-9;
        if q5m == 0.0 && same_pose && regular_arm(&s.p, &s.q) && s.p.sign_corrections[3] == s.p.sign_corrections[5] {
            // (robots whose J4 and J6 sign corrections differ: known finding F15, the recovery adds J4 + J6 in user space)
            // exactly singular (J5 = 0), previous realises the pose: the first continuation answer is the previous joints
            let sols = &entries[1].1;
            // hedge of the statement: no second IK branch is simultaneously singular (the twin pair of one branch is allowed)
            let nsing = entries[0].1.iter().filter(|x| r.kinematic_singularity(x).is_some()).count();
            let arms: Vec<&Joints> = entries[0].1.iter().filter(|x| r.kinematic_singularity(x).is_some()).collect();
            let one_arm = arms.iter().all(|x| (0..3).all(|i| ang_diff(x[i], s.q[i]) < 1e-3));
            if nsing == 0 || !one_arm { return None; }
            if sols.is_empty() { return Some(("inverse_continuing returned nothing at a J5 = 0 singular pose realised by previous".into(), "previous joints first".into())); }
            let x = &sols[0];
            if !(0..6).all(|i| (x[i] - s.prev[i]).abs() < 1e-3) {
                return Some((format!("first continuation answer {:?} differs from the previous joints {:?}", x, s.prev), "first answer == previous (J4/J6 must not jump)".into()));
            }
        }
    }
    if what == "c05" && six_dof && s.limits.is_none() {
        let q5m = s.q[4] * s.p.sign_corrections[4] as f64 - s.p.offsets[4];
        let same_arm = (0..5).all(|i| i == 3 || s.prev[i] == s.q[i]);
        let resplit = ang_diff(s.prev[3] + s.prev[5], s.q[3] + s.q[5]) >= 1e-9;
        if q5m == 0.0 && same_arm && resplit && regular_arm(&s.p, &s.q) && s.p.sign_corrections[3] == s.p.sign_corrections[5] {
            // statement: "in general the J4 and J6 of the recovered answer move by the same amount from their previous values"
            let arms: Vec<&Joints> = entries[0].1.iter().filter(|x| r.kinematic_singularity(x).is_some()).collect();
            let one_arm = !arms.is_empty() && arms.iter().all(|x| (0..3).all(|i| ang_diff(x[i], s.q[i]) < 1e-3));
            if one_arm {
                let sols = &entries[1].1;
                let ok = sols.iter().any(|x| (0..3).all(|i| (x[i] - s.prev[i]).abs() < 1e-3)
                    && ((x[3] - s.prev[3]) - (x[5] - s.prev[5])).abs() < 1e-6 && (x[3] - s.prev[3]).abs() <= PI / 2.0 + 1e-6);
                if !ok { return Some((format!("no continuation answer on the arm of previous {:?} moves J4 and J6 by the same amount (answers: {:?})", s.prev, sols), "the recovered answer moves J4 and J6 equally, by at most a quarter turn".into())); }
            }
        }
    }
    if what == "c03" {
        // forward and the six link poses against the independent product of elementary transforms (incl. |q| >> 2*pi)
        let links = indep_links(&s.p, &s.q);
        let f = r.forward(&s.q);
        let (dt, da) = pose_err(&links[5], &f);
        let scale = 1.0 + s.q.iter().fold(0.0f64, |a, b| a.max(b.abs()));
        if dt > 1e-9 * scale || da > 1e-9 * scale { return Some((format!("forward differs from the OPW link chain by {:e} m / {:e} rad", dt, da), "equal to the product of the six elementary transforms".into())); }
        let lp = r.forward_with_joint_poses(&s.q);
        for i in 0..6 {
            let (dt, da) = pose_err(&links[i], &lp[i]);
            if dt > 1e-9 * scale || da > 1e-9 * scale { return Some((format!("link pose {} differs from the chain by {:e} m / {:e} rad", i + 1, dt, da), "chain_i".into())); }
        }
        let (dt, da) = pose_err(&lp[5], &f);
        if dt > 1e-9 * scale || da > 1e-9 * scale { return Some(("forward differs from the last link pose".into(), "equal".into())); }
    }
    if what == "c05" {
        let q5 = s.q[4] * s.p.sign_corrections[4] as f64 - s.p.offsets[4];
        let thr = 0.01f64.to_radians();
        let d = { let m = q5.rem_euclid(PI); m.min(PI - m) };
        if (d - thr).abs() > 1e-7 {
            let got = r.kinematic_singularity(&s.q).is_some();
            if got != (d < thr) { return Some((format!("kinematic_singularity = {} at model J5 = {:e} from a multiple of pi", got, d), format!("{}", d < thr))); }
        }
    }
    None
}

fn gen(rng: &mut Rng, what: &str, round: usize) -> Scn {
    let mut p = rand_params(rng);
    let mut q = rand_joints(rng, if round % 3 == 0 { PI } else { 2.5 });
    let mut limits = None;
    let mut prev = q;
    for i in 0..6 { prev[i] += rng.range(-0.3, 0.3); }
    match what {
        "c06" => { if round % 2 == 0 { p.dof = 5; if round % 4 == 2 { p.sign_corrections[5] = 0; /* as the YAML / URDF loaders store it for a 5-DOF robot */ } } if round % 4 == 1 { p.c4 = 0.0; } if round % 3 == 0 { p.offsets[4] = rng.range(-0.6, 0.6); }
            if round % 5 == 3 {
                // limits whose J6 range is not centred at zero + the CONSTRAINT_CENTERED sentinel: J6 stays the caller's previous J6
                let mut f = [-3.0; 6]; let mut t = [3.0; 6]; f[5] = 0.2; t[5] = 0.6;
                limits = Some((f, t, 0.0));
                prev = [f64::NAN, 0.0, 0.0, 0.0, 0.0, [0.0, 0.3, 0.5][rng.below(3)]];
            }
        }
        "c05" if round % 2 == 0 => {
            // exactly singular J5 = 0 (model), previous realises the pose; J4 + J6 anywhere incl. across +-pi
            q = rand_joints(rng, 2.0);
            q[4] = (0.0 + p.offsets[4]) * p.sign_corrections[4] as f64;
            if round % 4 == 2 { p.offsets[4] = 0.0; q[4] = 0.0; }
            q[3] = rng.range(-PI, PI); q[5] = rng.range(-PI, PI);
            if round % 4 == 0 { let t = if round % 8 == 0 { 0.0 } else { rng.range(-0.2, 0.2) }; q[5] = PI * (if rng.below(2) == 0 { 1.0 } else { -1.0 }) - q[3] + t; }
            prev = q;
            if round % 6 == 4 {
                // previous realises the same pose with J4 / J6 split differently and written with extra whole turns (all
                // inside the documented +-2*pi range): J4 + d + 2*pi*k4, J6 - d + 2*pi*k6 keeps J4 + J6 modulo 2*pi
                let d = rng.range(-1.0, 1.0);
                let a = prev[3] + d + TWO_PI * (rng.below(3) as f64 - 1.0);
                let b = prev[5] - d + TWO_PI * (rng.below(3) as f64 - 1.0);
                if a.abs() <= TWO_PI && b.abs() <= TWO_PI { prev[3] = a; prev[5] = b; }
            }
            if round % 6 == 2 {
                // previous on the same arm and J5 but with another J4 + J6: the recovered answer must move J4 and J6 equally
                prev[3] += rng.range(-0.5, 0.5); prev[5] += rng.range(-0.5, 0.5);
            }
        }
        "c05" => {
            let k = rng.below(5) as f64 - 2.0;
            let band = [1e-6, 5e-5, 1.5e-4, 1.8e-4, 3e-4, 1e-2][rng.below(6)];
            let sgn = if rng.below(2) == 0 { 1.0 } else { -1.0 };
            let model = k * PI + sgn * band;
            q[4] = (model + p.offsets[4]) * p.sign_corrections[4] as f64;
        }
        "c03" => {
            if round % 3 == 0 { q = rand_joints(rng, 400.0); }
            if round % 4 == 1 { p.b = rng.range(-0.1, 0.1); p.a2 = rng.range(-0.2, 0.2); }
            if round % 5 == 2 { p.dof = 5; p.sign_corrections[5] = 0; }
            // any real link lengths (the statement says: every parameter set), negative and zero ones included
            if round % 6 == 3 { p.a1 = rng.range(-0.5, 0.5); p.a2 = rng.range(-0.5, 0.5); p.b = rng.range(-0.5, 0.5); p.c1 = rng.range(-0.5, 0.5); p.c2 = rng.range(-0.5, 0.5); p.c3 = rng.range(-0.5, 0.5); p.c4 = rng.range(-0.5, 0.5); if rng.below(4) == 0 { p.a2 = 0.0; p.c3 = 0.0; } }
        }
        "c01" => {
            if round % 7 == 3 { p.c4 = 0.0; }     // tool point in the wrist centre: the 5-DOF position check cannot see the wrist angles
            match round % 5 {
                0 => { // almost wrist-singular, previous splits J4/J6 differently
                    let e = [4e-6, 1e-5, 3e-5, 1e-4][rng.below(4)];
                    let model = if rng.below(2) == 0 { e } else { PI - e };
                    q[4] = (model + p.offsets[4]) * p.sign_corrections[4] as f64;
                    prev = q; let d = rng.range(0.2, 1.5); prev[3] += d; prev[5] -= d;
                }
                1 => { prev = [f64::NAN, 0.0, 0.0, 0.0, 0.0, 0.0]; }
                2 => { prev = rand_joints(rng, TWO_PI); }
                _ => {}
            }
        }
        "c08" | "c04" => {
            let mut f = [0.0; 6]; let mut t = [0.0; 6];
            for i in 0..6 {
                match rng.below(6) {
                    0 => { f[i] = 0.0; t[i] = 0.0; }
                    1 => { let c = q[i] + rng.range(-0.5, 0.5); f[i] = c - 0.6; t[i] = c + 0.6; }
                    2 => { f[i] = rng.range(-PI, PI); t[i] = rng.range(-PI, PI); }
                    // limits written in mixed conventions: anywhere within two turns, reversed pairs more than a turn apart included
                    3 => { f[i] = rng.range(-TWO_PI, TWO_PI); t[i] = rng.range(-TWO_PI, TWO_PI); }
                    // a window around the joint, each limit moved by its own number of whole turns
                    4 => { let c = q[i] + rng.range(-0.5, 0.5); f[i] = c - 0.6 + TWO_PI * (rng.below(3) as f64 - 1.0); t[i] = c + 0.6 + TWO_PI * (rng.below(3) as f64 - 1.0); }
                    _ => { f[i] = -3.0; t[i] = 3.0; }
                }
            }
            let w = [0.0, 1.0, 0.5, 0.25][rng.below(4)];
            if !(what == "c04" && round % 3 == 0) { limits = Some((f, t, w)); }
            if round % 4 == 0 { // singular pose, previous outside the limits
                q[4] = (0.0 + p.offsets[4]) * p.sign_corrections[4] as f64;
                prev = if rng.below(2) == 0 { [0.0; 6] } else { rand_joints(rng, PI) };
            }
            if round % 7 == 0 { p.dof = 5; }
            if what == "c04" && round % 5 == 0 { prev = [f64::NAN, 0.0, 0.0, 0.0, 0.0, 0.0]; }
            if what == "c04" && round % 6 == 1 { for i in [3usize, 5] { let a = prev[i] + TWO_PI * (rng.below(3) as f64 - 1.0); if a.abs() <= TWO_PI { prev[i] = a; } } }
        }
        _ => {}
    }
    if what == "c05" && round % 2 == 0 { return Scn { p, limits, q, prev, j6: 0.0 }; }
    Scn { p, limits, q, prev, j6: rng.range(-3.0, 3.0) }
}

pub fn search(what: &str, seed: u64, budget: usize) -> Option<Found> {
    let mut rng = Rng::new(seed ^ 0xC0FFEE);
    for round in 0..budget {
        let s = gen(&mut rng, what, round);
        if let Some((obs, exp)) = check(&s, what) {
            return Some(Found { kind: what.into(), case: s.to_json(), observed: obs, expected: exp });
        }
    }
    None
}
pub fn replay(kind: &str, case: &str) -> Option<Found> {
    let s = Scn::from_json(case)?;
    check(&s, kind).map(|(o, e)| Found { kind: kind.into(), case: case.into(), observed: o, expected: e })
}
