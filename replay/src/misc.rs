//! C17 (frame from three point pairs), C15 (Jacobian entry points), C13 (RRT path), C12 (Cartesian stroke): oracles.
use crate::{Found, rng::Rng, json};
use crate::opw::{rand_joints, base_params, indep_fk, pose_err};
use rs_opw_kinematics::frame::Frame;
use rs_opw_kinematics::jacobian::Jacobian;
use rs_opw_kinematics::kinematic_traits::{Kinematics, Joints};
use rs_opw_kinematics::kinematics_impl::OPWKinematics;
use nalgebra::{Isometry3, Point3, Translation3, UnitQuaternion, Vector3, Vector6};
use std::sync::Arc;

fn rand_iso(rng: &mut Rng, far: bool) -> Isometry3<f64> {
    let ax = nalgebra::Unit::new_normalize(Vector3::new(rng.range(-1.0, 1.0), rng.range(-1.0, 1.0), rng.range(-1.0, 1.0) + 0.01));
    let s = if far { 50.0 } else { 1.0 };
    Isometry3::from_parts(Translation3::new(rng.range(-s, s), rng.range(-s, s), rng.range(-s, s)), UnitQuaternion::from_axis_angle(&ax, rng.range(-3.1, 3.1)))
}

// ---------------------------------------------------------------- C17
pub fn check_c17(p: &[Point3<f64>; 3], q: &[Point3<f64>; 3], expect: u8) -> Option<(String, String)> {
    // expect: 0 = Ok and maps each point, 1 = NotIsometry, 2 = collinear source, 3 = collinear target
    let r = Frame::frame(p[0], p[1], p[2], q[0], q[1], q[2]);
    match (expect, r) {
        (0, Ok(iso)) => {
            for k in 0..3 {
                let e = (iso.transform_point(&p[k]) - q[k]).norm();
                if e > 1e-6 { return Some((format!("frame maps point {} {:e} m away from its image", k + 1, e), "each point onto its image".into())); }
            }
            None
        }
        (0, Err(e)) => Some((format!("congruent non-collinear triple rejected: {}", e), "Ok(frame)".into())),
        (1, Ok(_)) => Some(("triple whose mutual distances differ by more than 5 mm is accepted".into(), "Err(NotIsometry)".into())),
        (1, Err(e)) => if format!("{}", e).starts_with("Not isometry") { None } else { Some((format!("wrong error: {}", e), "NotIsometry".into())) },
        (2, Ok(_)) | (3, Ok(_)) => Some(("collinear triple accepted".into(), "Err(ColinearPoints)".into())),
        (2, Err(e)) => if format!("{}", e).contains("colinear source") { None } else { Some((format!("wrong error: {}", e), "ColinearPoints(source)".into())) },
        (3, Err(e)) => if format!("{}", e).contains("colinear target") { None } else { Some((format!("wrong error: {}", e), "ColinearPoints(target)".into())) },
        _ => None,
    }
}
fn c17_case(p: &[Point3<f64>; 3], q: &[Point3<f64>; 3], expect: u8) -> String {
    let f = |a: &[Point3<f64>; 3]| -> String { json::nums(&[a[0].x, a[0].y, a[0].z, a[1].x, a[1].y, a[1].z, a[2].x, a[2].y, a[2].z]) };
    format!("{{\"p\": {}, \"q\": {}, \"expect\": {}}}", f(p), f(q), expect)
}
pub fn search_c17(seed: u64, budget: usize) -> Option<Found> {
    let mut rng = Rng::new(seed ^ 0xF17);
    for round in 0..budget {
        let far = round % 4 == 0;
        let s = if far { 30.0 } else { 1.0 };
        let p = [Point3::new(rng.range(-s, s), rng.range(-s, s), rng.range(-s, s)), Point3::new(rng.range(-s, s), rng.range(-s, s), rng.range(-s, s)), Point3::new(rng.range(-s, s), rng.range(-s, s), rng.range(-s, s))];
        let area = (p[1] - p[0]).cross(&(p[2] - p[0])).norm();
        if area < 1e-3 { continue; }
        let m = rand_iso(&mut rng, far);
        let mut q = [m.transform_point(&p[0]), m.transform_point(&p[1]), m.transform_point(&p[2])];
        let mut expect = 0u8;
        match round % 6 {
            1 => { // move one image point tangentially/radially by more than 5 mm (changes exactly one or two mutual distances)
                let k = rng.below(3); let o = (k + 1 + rng.below(2)) % 3;
                let dir = (q[k] - q[o]).normalize();
                let third = 3 - k - o;
                let t = dir.cross(&(q[third] - q[o])).normalize();
                let w = if rng.below(2) == 0 { dir } else { t.cross(&dir).normalize() };
                q[k] = q[k] + w * rng.range(0.02, 0.2);
                let d = |a: &[Point3<f64>; 3], i: usize, j: usize| (a[i] - a[j]).norm();
                let worst = [(0, 1), (0, 2), (1, 2)].iter().map(|(i, j)| (d(&p, *i, *j) - d(&q, *i, *j)).abs()).fold(0.0, f64::max);
                if worst < 0.006 { continue; }
                expect = 1;
            }
            2 => { // perturbation below the tolerance: accepted (result not judged beyond Ok)
                q[rng.below(3)].x += 0.001; 
                if Frame::frame(p[0], p[1], p[2], q[0], q[1], q[2]).is_err() { return Some(Found { kind: "c17".into(), case: c17_case(&p, &q, 0), observed: "1 mm perturbation rejected".into(), expected: "accepted (below the 5 mm tolerance)".into() }); }
                continue;
            }
            3 => { // exactly collinear source and target (same spacing): source error comes first
                let d = Vector3::new(0.3, -0.2, 0.5);
                let pc = [p[0], p[0] + d, p[0] + d * 2.0];
                let qc = [m.transform_point(&pc[0]), m.transform_point(&pc[1]), m.transform_point(&pc[2])];
                if let Some((o, e)) = check_c17(&pc, &qc, 255) { return Some(Found { kind: "c17".into(), case: c17_case(&pc, &qc, 255), observed: o, expected: e }); }
                if Frame::frame(pc[0], pc[1], pc[2], qc[0], qc[1], qc[2]).is_ok() {
                    // numerically the cross product may not be exactly zero: only integers are judged
                }
                let pi = [Point3::new(0.0, 0.0, 0.0), Point3::new(1.0, 2.0, 3.0), Point3::new(2.0, 4.0, 6.0)];
                let qi = [Point3::new(1.0, 1.0, 1.0), Point3::new(2.0, 3.0, 4.0), Point3::new(3.0, 5.0, 7.0)];
                if let Some((o, e)) = check_c17(&pi, &qi, 2) { return Some(Found { kind: "c17".into(), case: c17_case(&pi, &qi, 2), observed: o, expected: e }); }
                // source 1 mm off a line (not collinear), target exactly on a line, all distances within the 5 mm tolerance: the TARGET error
                let pn = [Point3::new(0.0, 0.0, 0.0), Point3::new(1.0, 0.0, 0.0), Point3::new(2.0, 0.001, 0.0)];
                let qn = [Point3::new(1.0, 1.0, 1.0), Point3::new(2.0, 1.0, 1.0), Point3::new(3.0, 1.0, 1.0)];
                if let Some((o, e)) = check_c17(&pn, &qn, 3) { return Some(Found { kind: "c17".into(), case: c17_case(&pn, &qn, 3), observed: o, expected: e }); }
                if let Some((o, e)) = check_c17(&qn, &pn, 2) { return Some(Found { kind: "c17".into(), case: c17_case(&qn, &pn, 2), observed: o, expected: e }); }
                continue;
            }
            _ => {}
        }
        if let Some((o, e)) = check_c17(&p, &q, expect) { return Some(Found { kind: "c17".into(), case: c17_case(&p, &q, expect), observed: o, expected: e }); }
        if expect == 0 && round % 5 == 0 {
            // forward_transformed: frame-moved pose and only solutions that realise it, nearest to previous first
            let k = rng.below(4);
            let robot = OPWKinematics::new(base_params(k));
            let fr = Frame { robot: Arc::new(robot), frame: Frame::frame(p[0], p[1], p[2], q[0], q[1], q[2]).ok()? };
            let qs = rand_joints(&mut rng, 1.5);
            let (sols, pose) = fr.forward_transformed(&qs, &qs);
            // "ordered by closeness to the given previous joints": take the farthest answer as previous and ask again
            if sols.len() >= 2 {
                let far = sols[sols.len() - 1];
                let (again, _) = fr.forward_transformed(&qs, &far);
                let d = |a: &Joints, b: &Joints| -> f64 { (0..6).map(|i| (a[i] - b[i]).abs()).sum() };
                if !again.is_empty() && d(&again[0], &far) > 1e-6 && again.iter().any(|x| d(x, &far) < 1e-9) {
                    return Some(Found { kind: "c17".into(), case: c17_case(&p, &q, 0), observed: format!("forward_transformed(qs, previous = {:?}) returns {:?} first", far, again[0]), expected: "the answer closest to previous first".into() });
                }
            }
            let want = fr.frame * indep_fk(&base_params(k), &qs);
            let (dt, da) = pose_err(&want, &pose);
            if dt > 1e-9 * (1.0 + s) || da > 1e-9 { return Some(Found { kind: "c17".into(), case: c17_case(&p, &q, 0), observed: format!("forward_transformed pose off by {:e} m / {:e} rad", dt, da), expected: "frame * forward(qs)".into() }); }
            for x in &sols { let (dt, da) = pose_err(&want, &indep_fk(&base_params(k), x)); if dt > 2e-6 || da > 2e-6 { return Some(Found { kind: "c17".into(), case: c17_case(&p, &q, 0), observed: format!("forward_transformed returned {:?} which misses the moved pose by {:e} m / {:e} rad", x, dt, da), expected: "only solutions that realise the moved pose".into() }); } }
        }
    }
    None
}
pub fn replay_c17(case: &str) -> Option<Found> {
    let p = json::get_nums(case, "p"); let q = json::get_nums(case, "q"); let e = json::get_num(case, "expect")? as u8;
    let pp = [Point3::new(p[0], p[1], p[2]), Point3::new(p[3], p[4], p[5]), Point3::new(p[6], p[7], p[8])];
    let qq = [Point3::new(q[0], q[1], q[2]), Point3::new(q[3], q[4], q[5]), Point3::new(q[6], q[7], q[8])];
    check_c17(&pp, &qq, e).map(|(o, x)| Found { kind: "c17".into(), case: case.into(), observed: o, expected: x })
}

// ---------------------------------------------------------------- C15
pub fn check_c15(k: usize, q: &Joints, eps: f64, tw: &[f64; 6], tool: &[f64; 3]) -> Option<(String, String)> {
    // bare robot or robot behind a tool with a lateral offset (the tool centre point off the J6 axis)
    let tl = Isometry3::translation(tool[0], tool[1], tool[2]);
    let robot = rs_opw_kinematics::tool::Tool { robot: Arc::new(OPWKinematics::new(base_params(k))), tool: tl };
    let jac = Jacobian::new(&robot, q, eps);
    // recover J column by column: torques_from_vector(e_i) = J^T e_i = row i of J
    let mut j = [[0.0f64; 6]; 6];
    for i in 0..6 { let mut e = Vector6::zeros(); e[i] = 1.0; let row = jac.torques_from_vector(&e); for c in 0..6 { j[i][c] = row[c]; } }
    // columns against the forward difference of the independent model
    let p = base_params(k);
    let f0 = indep_fk(&p, q) * tl;
    for c in 0..6 {
        let mut qq = *q; qq[c] += eps;
        let f1 = indep_fk(&p, &qq) * tl;
        let dp = (f1.translation.vector - f0.translation.vector) / eps;
        let dr = (f1.rotation * f0.rotation.inverse()).scaled_axis() / eps;
        for r in 0..3 {
            if (j[r][c] - dp[r]).abs() > 1e-3 || (j[r + 3][c] - dr[r]).abs() > 1e-3 {
                return Some((format!("Jacobian column {} differs from the forward difference of the link model (rows {} / {})", c + 1, r, r + 3), "column i = d pose / d joint i".into()));
            }
        }
    }
    let v = Vector6::new(tw[0], tw[1], tw[2], tw[3], tw[4], tw[5]);
    let iso = Isometry3::from_parts(Translation3::new(tw[0], tw[1], tw[2]), UnitQuaternion::from_scaled_axis(Vector3::new(tw[3], tw[4], tw[5])));
    // torques = J^T w, isometry and vector entry points agree
    let tv = jac.torques_from_vector(&v); let ti = jac.torques(&iso);
    for c in 0..6 {
        let want: f64 = (0..6).map(|r| j[r][c] * tw[r]).sum();
        if (tv[c] - want).abs() > 1e-6 * (1.0 + want.abs()) { return Some((format!("torques_from_vector[{}] = {} but J^T w = {}", c, tv[c], want), "transpose applied to the wrench".into())); }
        if (ti[c] - tv[c]).abs() > 1e-6 * (1.0 + tv[c].abs()) { return Some((format!("torques(isometry)[{}] = {} differs from torques_from_vector = {}", c, ti[c], tv[c]), "isometry- and vector-based entry points agree".into())); }
    }
    let vv = jac.velocities_from_vector(&v); let vi = jac.velocities(&iso);
    if let (Ok(vv), Ok(vi)) = (vv, vi) {
        for c in 0..6 { if (vv[c] - vi[c]).abs() > 1e-6 * (1.0 + vv[c].abs()) { return Some((format!("velocities(isometry)[{}] = {} differs from velocities_from_vector = {}", c, vi[c], vv[c]), "entry points agree".into())); } }
        // J qdot reproduces the twist when well conditioned
        let big = vv.iter().fold(0.0f64, |a, b| a.max(b.abs()));
        if big < 1e3 {
            for r in 0..6 { let got: f64 = (0..6).map(|c| j[r][c] * vv[c]).sum(); if (got - tw[r]).abs() > 1e-5 * (1.0 + big) { return Some((format!("J * velocities reproduces {} instead of {} in component {}", got, tw[r], r), "the desired twist".into())); } }
        }
    }
    None
}
pub fn search_c15(seed: u64, budget: usize) -> Option<Found> {
    let mut rng = Rng::new(seed ^ 0xC15);
    for round in 0..budget {
        let k = rng.below(4);
        let mut q = rand_joints(&mut rng, 2.0);
        if q[4].sin().abs() < 0.2 { q[4] = 0.9; }
        let eps = [1e-7, 1e-6, 1e-5, 1e-3, 1e-2][rng.below(5)];
        let tool = if round % 2 == 0 { [0.0; 3] } else { [rng.range(-0.3, 0.3), rng.range(-0.3, 0.3), rng.range(0.0, 0.3)] };
        let mut tw = [0.0; 6];
        for i in 0..6 { tw[i] = rng.range(-1.0, 1.0); }
        if round % 3 == 0 { tw[3] = 0.0; tw[4] = 0.0; }
        if let Some((o, e)) = check_c15(k, &q, eps, &tw, &tool) {
            return Some(Found { kind: "c15".into(), case: format!("{{\"robot\": {}, \"q\": {}, \"eps\": {:?}, \"twist\": {}, \"tool\": {}}}", k, json::nums(&q), eps, json::nums(&tw), json::nums(&tool)), observed: o, expected: e });
        }
    }
    None
}
pub fn replay_c15(case: &str) -> Option<Found> {
    let q = json::get_nums(case, "q"); let t = json::get_nums(case, "twist"); let tl = json::get_nums(case, "tool"); let tl = if tl.len() == 3 { [tl[0], tl[1], tl[2]] } else { [0.0; 3] };
    check_c15(json::get_num(case, "robot")? as usize, &[q[0], q[1], q[2], q[3], q[4], q[5]], json::get_num(case, "eps")?, &[t[0], t[1], t[2], t[3], t[4], t[5]], &tl)
        .map(|(o, e)| Found { kind: "c15".into(), case: case.into(), observed: o, expected: e })
}
