//! Witness search and replay on the real compiled crate.
//! `wit search <PROP> <seed> [obligation...]` prints one JSON line {found, property, case, ...}
//! `wit replay <file>` re-executes the recorded case and exits 1 if it still fails.
//! The oracles are executable mirrors of the spec functions of /verif/units (written from the
//! property statements); they are used only to find/replay a concrete failing input after a
//! proof obligation failed - they never decide a property.
use std::f64::consts::PI;

mod rng;
mod c07;
mod opw;
mod wrap;
mod col;
mod misc;
mod stroke;
mod rrtw;
mod json;

pub struct Found {
    pub case: String,      // JSON object text describing the input
    pub observed: String,
    pub expected: String,
    pub kind: String,
}

fn main() {
    let args: Vec<String> = std::env::args().collect();
    if args.len() < 3 {
        eprintln!("usage: wit search <PROP> <seed> [obligations..] | wit replay <file>");
        std::process::exit(2);
    }
    if args[1] == "search" {
        let prop = args[2].as_str();
        let seed: u64 = args.get(3).and_then(|s| s.parse().ok()).unwrap_or(1);
        let obls: Vec<String> = args.iter().skip(4).cloned().collect();
        let r = search(prop, seed, &obls);
        match r {
            Some(f) => println!("{{\"found\": true, \"property\": \"{}\", \"kind\": \"{}\", \"case\": {}, \"observed\": \"{}\", \"expected\": \"{}\"}}",
                                prop, f.kind, f.case, json::esc(&f.observed), json::esc(&f.expected)),
            None => println!("{{\"found\": false, \"property\": \"{}\", \"note\": \"no concrete failing input in the searched region\"}}", prop),
        }
    } else if args[1] == "replay" {
        let txt = std::fs::read_to_string(&args[2]).expect("read replay file");
        let prop = json::get_str(&txt, "property").unwrap_or_default();
        let kind = json::get_str_in(&txt, "witness", "kind").unwrap_or_default();
        let case = json::get_obj_in(&txt, "witness", "case").unwrap_or_default();
        match replay(&prop, &kind, &case) {
            Some(f) => {
                println!("REPLAY property={} kind={} STILL FAILS: observed {} expected {}", prop, kind, f.observed, f.expected);
                println!("case: {}", case);
                std::process::exit(1);
            }
            None => {
                println!("REPLAY property={} kind={} passes on the current tree", prop, kind);
            }
        }
    }
}

fn search(prop: &str, seed: u64, obls: &[String]) -> Option<Found> {
    match prop {
        "C07" => c07::search(seed, obls, false),
        "C18" => c07::search(seed, obls, true),
        // C01 covers every inverse entry point, wrapped robots included: the bare-robot oracle first, then the wrapper stacks
        "C01" => opw::search("c01", seed, 60000).or_else(|| wrap::search("c09", seed, 20000)),
        "C02" => opw::search("c02", seed, 60000),
        "C03" => opw::search("c03", seed, 60000),
        "C04" => opw::search("c04", seed, 60000),
        "C05" => opw::search("c05", seed, 100000),
        "C06" => opw::search("c06", seed, 60000),
        "C08" => opw::search("c08", seed, 60000),
        "C09" => wrap::search("c09", seed, 20000),
        "C15" => misc::search_c15(seed, 3000),
        "C12" => stroke::search(seed, 40),
        "C13" => rrtw::search(seed, 60),
        "C17" => misc::search_c17(seed, 20000),
        "C10" => col::search("c10", seed, 300),
        "C11" => col::search("c11", seed, 150),
        "C14" => col::search("c14", seed, 150),
        "C16" => wrap::search("c16", seed, 20000),
        _ => None,
    }
}

fn replay(prop: &str, kind: &str, case: &str) -> Option<Found> {
    match prop {
        "C07" | "C18" => c07::replay(kind, case),
        "C01" if kind == "c09" => wrap::replay(kind, case),
        "C01" | "C02" | "C03" | "C04" | "C05" | "C06" | "C08" => opw::replay(kind, case),
        "C09" | "C16" => wrap::replay(kind, case),
        "C10" | "C11" | "C14" => col::replay(kind, case),
        "C17" => misc::replay_c17(case),
        "C12" => stroke::replay(case),
        "C13" => rrtw::replay(case),
        "C15" => misc::replay_c15(case),
        _ => None,
    }
}

pub const TWO_PI: f64 = 2.0 * PI;
