"""Engine B runner: Kani harnesses on a scratch copy of the real crate.

The scratch copy is rsynced from /repo's working tree on every run; the files under
/verif/kani/*.rs are APPENDED to the source file named in their first line
(`//@append src/<file>.rs`), as `#[cfg(kani)] mod verif_kani_<name> { .. }` - no existing line of
the crate is modified.  Results are cached by content hash of (src tree, harness files, harness)."""
import fcntl
import glob
import hashlib
import json
import os
import re
import shutil
import subprocess
import sys
import time

VERIF = os.path.dirname(os.path.dirname(os.path.abspath(__file__)))
CACHE = os.path.join(VERIF, '.cache')
SCRATCH_ROOT = os.environ.get('VERIF_KANI_SCRATCH', '/var/tmp/verif-kani')
FEATURES = ['--no-default-features', '--features', 'collisions,stroke_planning']


def harness_files():
    return sorted(glob.glob(os.path.join(VERIF, 'kani', '*.rs')))


def harness_index():
    """harness name -> (file, target src, obligation label, props)"""
    idx = {}
    for hf in harness_files():
        txt = open(hf).read()
        mm = re.match(r'//@append\s+(\S+)', txt)
        target = mm.group(1) if mm else None
        for m2 in re.finditer(r'((?:\s*//[^\n]*\n)*)((?:\s*#\[[^\n]*\]\s*\n)+)\s*(?:pub\s+)?fn\s+([a-z_0-9A-Z]+)\s*\(', txt):
            attrs = m2.group(2)
            if 'kani::proof' in attrs:
                lab = re.search(r'//\s*(O-[A-Za-z0-9_-]+)', m2.group(1) or '')
                idx[m2.group(3)] = dict(file=hf, target=target, obligation=lab.group(1) if lab else None)
    return idx


def tree_hash(repo):
    h = hashlib.sha256()
    files = sorted(glob.glob(os.path.join(repo, 'src', '**', '*.rs'), recursive=True)) + [os.path.join(repo, 'Cargo.toml'), os.path.join(repo, 'Cargo.lock')]
    for f in files:
        if os.path.exists(f):
            h.update(f[len(repo):].encode())
            h.update(open(f, 'rb').read())
    for f in harness_files():
        h.update(os.path.basename(f).encode())
        h.update(open(f, 'rb').read())
    try:
        v = subprocess.run(['cargo', 'kani', '--version'], capture_output=True, text=True).stdout
    except Exception:
        v = ''
    h.update(v.encode())
    return h.hexdigest()


def prepare_scratch(repo):
    os.makedirs(SCRATCH_ROOT, exist_ok=True)
    src = os.path.join(SCRATCH_ROOT, 'crate')
    if os.path.exists(src):
        shutil.rmtree(src)
    subprocess.run(['rsync', '-a', '--exclude', 'target', '--exclude', '.git', '--exclude', 'src/visualize', repo + '/', src + '/'], check=True)
    # the visualize module is behind the `visualization` feature; keep the directory listing intact
    if os.path.isdir(os.path.join(repo, 'src', 'visualize')):
        subprocess.run(['rsync', '-a', os.path.join(repo, 'src', 'visualize') + '/', os.path.join(src, 'src', 'visualize') + '/'], check=True)
    for hf in harness_files():
        txt = open(hf).read()
        mm = re.match(r'//@append\s+(\S+)', txt)
        if not mm:
            continue
        tgt = os.path.join(src, mm.group(1))
        if not os.path.exists(tgt):
            raise RuntimeError('kani harness target missing: %s' % mm.group(1))
        name = os.path.basename(hf)[:-3]
        with open(tgt, 'a') as f:
            f.write('\n\n#[cfg(kani)]\nmod verif_kani_%s {\n%s\n}\n' % (name, txt))
    cfgdir = os.path.join(src, '.cargo')
    os.makedirs(cfgdir, exist_ok=True)
    with open(os.path.join(cfgdir, 'config.toml'), 'w') as f:
        f.write('[net]\noffline = true\n')
    return src


def parse_output(out, harnesses):
    """split kani output per harness"""
    res = {}
    # with -j every message is prefixed "Thread N: "; regroup the messages per thread, then per harness
    if re.search(r'(?m)^Thread \d+: ', out):
        chunks = re.split(r'(?m)^(Thread \d+): ', out)
        per_thread = {}
        cur = {}
        texts = {}
        i = 1
        while i < len(chunks):
            th, body = chunks[i], chunks[i + 1]
            mm = re.match(r'Checking harness ([^\s.]+)\.\.\.', body)
            if mm:
                cur[th] = mm.group(1)
                texts.setdefault(cur[th], '')
            if th in cur:
                texts[cur[th]] += body
            i += 2
        blocks = [''] + [t[len('Checking harness '):] if t.startswith('Checking harness ') else t for t in texts.values()]
    else:
        blocks = re.split(r'(?m)^Checking harness ', out)
    for b in blocks[1:]:
        name = b.split('...')[0].strip().split('::')[-1]
        st = None
        if 'VERIFICATION:- SUCCESSFUL' in b:
            st = 'ok'
        elif 'VERIFICATION:- FAILED' in b:
            st = 'fail'
        tm = re.search(r'Verification Time: ([0-9.]+)s', b)
        failed = re.findall(r'Failed Checks: ([^\n]*)', b)
        summ = re.search(r'\*\* (\d+) of (\d+) failed', b)
        unwind_fail = any('unwinding assertion' in f for f in failed)
        oom = 'out of memory' in b.lower() or 'CBMC failed' in b or 'memory exhausted' in b.lower()
        res[name] = dict(harness=name, status=st, time_s=float(tm.group(1)) if tm else None, failed_checks=failed,
                         checks=int(summ.group(2)) if summ else None, unwind_fail=unwind_fail, oom=oom, raw_tail=b[-1500:])
    return res


def run_harnesses(harnesses, repo='/repo', use_cache=True, timeout=3000):
    os.makedirs(CACHE, exist_ok=True)
    idx = harness_index()
    th = tree_hash(repo)
    results = []
    todo = []
    cmds = []
    for h in harnesses:
        if h not in idx:
            results.append(dict(harness=h, status='undecided', reason='harness not found in /verif/kani'))
            continue
        cp = os.path.join(CACHE, 'kani_%s_%s.json' % (h, th[:32]))
        if use_cache and os.path.exists(cp):
            r = json.load(open(cp))
            r['cached'] = True
            results.append(r)
        else:
            todo.append(h)
    if todo:
        os.makedirs(SCRATCH_ROOT, exist_ok=True)
        lock = open(os.path.join(SCRATCH_ROOT, 'lock'), 'w')
        fcntl.flock(lock, fcntl.LOCK_EX)
        try:
            # another process may have filled the cache while we waited
            still = []
            for h in todo:
                cp = os.path.join(CACHE, 'kani_%s_%s.json' % (h, th[:32]))
                if use_cache and os.path.exists(cp):
                    r = json.load(open(cp))
                    r['cached'] = True
                    results.append(r)
                else:
                    still.append(h)
            todo = still
            if todo:
                src = prepare_scratch(repo)
                env = dict(os.environ)
                env['CARGO_NET_OFFLINE'] = 'true'
                env['CARGO_TARGET_DIR'] = os.path.join(SCRATCH_ROOT, 'target')
                cmd = ['cargo', 'kani'] + FEATURES + ['-Z', 'function-contracts', '-Z', 'stubbing', '--output-format', 'terse', '-j', '8']
                for h in todo:
                    cmd += ['--harness', h]
                cmds.append('CARGO_NET_OFFLINE=true ' + ' '.join(cmd) + '   # in a scratch copy of /repo with /verif/kani/*.rs appended')
                t0 = time.time()
                try:
                    p = subprocess.run(cmd, cwd=src, env=env, capture_output=True, text=True, timeout=timeout)
                    out = p.stdout + '\n' + p.stderr
                    rc = p.returncode
                except subprocess.TimeoutExpired as e:
                    out = (e.stdout or b'').decode() if isinstance(e.stdout, bytes) else (e.stdout or '')
                    rc = -9
                per = parse_output(out, todo)
                for h in todo:
                    r = per.get(h)
                    if r is None or r['status'] is None:
                        why = 'kani produced no verdict (rc=%s)' % rc
                        mm = re.search(r'error(\[E\d+\])?: [^\n]*', out)
                        if mm:
                            why += ': ' + mm.group(0)[:300]
                        r = dict(harness=h, status='undecided', reason=why, raw_tail=out[-1200:])
                    elif r['status'] == 'fail' and (r['unwind_fail'] or r['oom']):
                        r['status'] = 'undecided'
                        r['reason'] = 'unwinding bound / resources'
                    r['obligation'] = idx[h]['obligation']
                    r['target'] = idx[h]['target']
                    r['tree_hash'] = th
                    if r['status'] in ('ok', 'fail'):
                        json.dump(r, open(os.path.join(CACHE, 'kani_%s_%s.json' % (h, th[:32])), 'w'))
                    results.append(r)
                # concrete trace for failures
                failed = [r for r in results if r['status'] == 'fail' and not r.get('cached') and r['harness'] in todo]
                for r in failed:
                    cmd2 = ['cargo', 'kani'] + FEATURES + ['-Z', 'function-contracts', '-Z', 'stubbing', '-Z', 'concrete-playback', '--concrete-playback=print', '--harness', r['harness']]
                    try:
                        p2 = subprocess.run(cmd2, cwd=src, env=env, capture_output=True, text=True, timeout=900)
                        o2 = p2.stdout
                        mm = re.search(r'Concrete playback unit test for[\s\S]*?```([\s\S]*?)```', o2)
                        r['trace'] = mm.group(1).strip()[:6000] if mm else None
                        fd = re.findall(r'Status: FAILURE\s*\n\s*- Description: "([^"]*)"\s*\n\s*- Location: ([^\n]*)', o2)
                        r['failed_detail'] = ['%s @ %s' % (a, b.strip()) for a, b in fd][:10]
                        json.dump(r, open(os.path.join(CACHE, 'kani_%s_%s.json' % (r['harness'], th[:32])), 'w'))
                    except subprocess.TimeoutExpired:
                        r['trace'] = None
                shutil.rmtree(src, ignore_errors=True)
        finally:
            fcntl.flock(lock, fcntl.LOCK_UN)
            lock.close()
    order = {h: i for i, h in enumerate(harnesses)}
    results.sort(key=lambda r: order.get(r['harness'], 999))
    return dict(results=results, cmds=cmds, tree_hash=th)


if __name__ == '__main__':
    r = run_harnesses(sys.argv[1:], use_cache='--no-cache' not in sys.argv)
    for x in r['results']:
        x.pop('raw_tail', None)
    print(json.dumps(r, indent=1))
