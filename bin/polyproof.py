#!/usr/bin/env python3
"""polyproof: generate a STAGED Verus proof of a polynomial identity over the reals.

Z3 (through `by(nonlinear_arith)`) hangs on identities with six variables of degree four, but discharges each small step
at once.  This development tool expands both sides of an identity into sums of canonical monomials and emits
  * one helper lemma per product of sums (distributivity over OPAQUE real parameters: a bilinear identity), and
  * one `by(nonlinear_arith)` assertion per product of two monomials (reordering of at most a handful of factors),
after which the identity is linear arithmetic over identical monomial terms.  The output is ordinary Verus text that
is pasted into a prelude module and CHECKED by Verus like any other lemma - nothing here is trusted.

usage: polyproof.py NAME 'v1 v2 ...' 'LHS' 'RHS'        (expressions use + - * and parentheses; 1 is the only constant)
"""
import ast
import sys

_helpers = []      # text of generated distributivity lemmas
_hid = [0]


def mono_str(vs):
    if not vs:
        return '1real'
    s = vs[0]
    for v in vs[1:]:
        s = '(%s * %s)' % (s, v)
    return s


def sum_str(terms):
    if not terms:
        return '0real'
    out = []
    for k, (sg, vs) in enumerate(terms):
        m = mono_str(vs)
        if k == 0:
            out.append(m if sg > 0 else '(-%s)' % m)
        else:
            out.append(('+ ' if sg > 0 else '- ') + m)
    return '(' + ' '.join(out) + ')'


def src(node):
    if isinstance(node, ast.Name):
        return node.id
    if isinstance(node, ast.Constant):
        return '%dreal' % node.value
    if isinstance(node, ast.UnaryOp):
        return '(-%s)' % src(node.operand)
    op = {ast.Add: '+', ast.Sub: '-', ast.Mult: '*'}[type(node.op)]
    return '(%s %s %s)' % (src(node.left), op, src(node.right))


def dist_lemma(name, sa, sb):
    """lemma over opaque parameters: (+-p0 +- p1 ..) * (+-q0 ..) == sum +-(p_i * q_j)"""
    ps = ['p%d' % i for i in range(len(sa))]
    qs = ['q%d' % j for j in range(len(sb))]
    A = sum_str([(s, (p,)) for s, p in zip(sa, ps)])
    B = sum_str([(s, (q,)) for s, q in zip(sb, qs)])
    prods = []
    for i, s in enumerate(sa):
        for j, t in enumerate(sb):
            prods.append((s * t, '(%s * %s)' % (ps[i], qs[j])))
    R = ' '.join((('' if k == 0 and sg > 0 else ('-' if k == 0 else ('+ ' if sg > 0 else '- '))) + m) for k, (sg, m) in enumerate(prods))
    hn = '%s_d%d' % (name, _hid[0])
    _hid[0] += 1
    # staged: first distribute the left sum over B as a whole, then B over each p_i
    lines = ['proof fn %s(%s)' % (hn, ', '.join('%s: real' % v for v in ps + qs)),
             '    ensures %s * %s == %s' % (A, B, R), '{']
    lines.append('    let b = %s;' % B)
    lines.append('    assert(%s * b == %s) by(nonlinear_arith);' % (A, ' '.join((('' if k == 0 and s > 0 else ('-' if k == 0 else ('+ ' if s > 0 else '- '))) + '(%s * b)' % p) for k, (s, p) in enumerate(zip(sa, ps)))))
    for p in ps:
        lines.append('    assert(%s * %s == %s) by(nonlinear_arith);' % (p, B, ' '.join((('' if k == 0 and t > 0 else ('-' if k == 0 else ('+ ' if t > 0 else '- '))) + '(%s * %s)' % (p, q)) for k, (t, q) in enumerate(zip(sb, qs)))))
    lines.append('}')
    _helpers.append('\n'.join(lines))
    return hn


_VARS = []


def expand(node, name, steps):
    """returns the canonical term list of node; appends to `steps` what the CALLER needs to know src(node) == sum_str(terms).
    Every product node becomes a lemma of its own (small solver contexts, checked in parallel); the caller just calls it."""
    if isinstance(node, ast.Name):
        return [(1, (node.id,))]
    if isinstance(node, ast.Constant):
        assert node.value == 1
        return [(1, ())]
    if isinstance(node, ast.UnaryOp):
        t = expand(node.operand, name, steps)
        r = [(-s, v) for s, v in t]
        steps.append('assert(%s == %s);' % (src(node), sum_str(r)))
        return r
    if isinstance(node.op, (ast.Add, ast.Sub)):
        a = expand(node.left, name, steps)
        b = expand(node.right, name, steps)
        r = a + (b if isinstance(node.op, ast.Add) else [(-s, v) for s, v in b])
        steps.append('assert(%s == %s);' % (src(node), sum_str(r)))
        return r
    # product of two sums: a lemma of its own
    inner = []
    a = expand(node.left, name, inner)
    b = expand(node.right, name, inner)
    hn = dist_lemma(name, [s for s, _ in a], [s for s, _ in b])
    args = [mono_str(v) for _, v in a] + [mono_str(v) for _, v in b]
    inner.append('%s(%s);' % (hn, ', '.join(args)))
    r = []
    batch = []
    for s, u in a:
        for t, w in b:
            vs = tuple(sorted(u + w))
            lhs = '(%s * %s)' % (mono_str(u), mono_str(w))
            if lhs != mono_str(vs) and (lhs, mono_str(vs)) not in batch:
                batch.append((lhs, mono_str(vs)))
            r.append((s * t, vs))
    # monomial reorderings: ONE per by(nonlinear_arith) query (batches of 6 or 20 conjuncts made Z3 hang for > 15 min)
    B = int(__import__('os').environ.get('POLYPROOF_BATCH', '1'))
    for k in range(0, len(batch), B):
        inner.append('assert(%s) by(nonlinear_arith);' % ' && '.join('%s == %s' % x for x in batch[k:k + B]))
    inner.append('assert(%s == %s);' % (src(node), sum_str(r)))
    ln = '%s_n%d' % (name, _hid[0])
    _hid[0] += 1
    _helpers.append('proof fn %s(%s)\n    ensures %s == %s\n{\n%s\n}' % (
        ln, ', '.join('%s: real' % v for v in _VARS), src(node), sum_str(r), '\n'.join('    ' + x for x in inner)))
    steps.append('%s(%s);' % (ln, ', '.join(_VARS)))
    return r


def main():
    name, vs, lhs, rhs = sys.argv[1], sys.argv[2].split(), sys.argv[3], sys.argv[4]
    _VARS.extend(vs)
    steps = []
    l = ast.parse(lhs, mode='eval').body
    r = ast.parse(rhs, mode='eval').body
    tl = expand(l, name, steps)
    tr = expand(r, name, steps)
    # sanity: the two canonical sums must agree as multisets
    from collections import Counter
    cl, cr = Counter(), Counter()
    for s, v in tl:
        cl[v] += s
    for s, v in tr:
        cr[v] += s
    assert {k: v for k, v in cl.items() if v} == {k: v for k, v in cr.items() if v}, 'not an identity'
    print('// generated by bin/polyproof.py (development tool); every step is checked by Verus')
    for h in _helpers:
        print(h)
    print('pub proof fn %s(%s)' % (name, ', '.join('%s: real' % v for v in vs)))
    print('    ensures %s == %s' % (src(l), src(r)))
    print('{')
    for s in steps:
        print('    ' + s)
    print('}')


if __name__ == '__main__':
    main()
