"""Engine A generator: builds one Verus file per unit from
  * the fixed prelude modules (/verif/verus/prelude/*.rs),
  * the unit template (/verif/units/<unit>.vu): hand-written specs/lemmas + //@item directives,
  * the items named by those directives, copied verbatim from /repo/src on every run and
    spliced with the annotations of the directive.
See DESIGN.md 1.2 for the rewrite rules (D1.., R1..)."""
import hashlib
import json
import os
import re
import sys

sys.path.insert(0, os.path.dirname(__file__))
import rustscan as rs

REPO = os.environ.get('VERIF_REPO', '/repo')
VERIF = os.path.dirname(os.path.dirname(os.path.abspath(__file__)))


class LostAnchor(Exception):
    pass


class Unsupported(Exception):
    pass


# --------------------------------------------------------------------------- rewrites
def _strip_docs_attrs(text, log, keep_eq=False):
    out = []
    n = 0
    for line in text.split('\n'):
        s = line.strip()
        if s.startswith('///') or s.startswith('//!'):
            n += 1
            continue
        if re.match(r'#\[(allow|doc|inline|must_use)\b.*\]$', s):
            n += 1
            continue
        if re.match(r'#\[derive\(.*\)\]$', s):
            # keep Clone/Copy/PartialEq (Verus supports them), drop the rest (Debug etc.)
            keep = [d for d in re.findall(r'[A-Za-z_:]+', s[len('#[derive('):-2]) if d in ('Clone', 'Copy') or (keep_eq and d in ('PartialEq', 'Eq'))]
            n += 1
            if 'Clone' in keep and 'Copy' not in keep:
                keep.remove('Clone')        # derive(Clone) on non-Copy data (HashMap fields) crashes this Verus; not needed
            if 'PartialEq' in keep and re.search(r'\benum\b', text):
                keep.append('Structural')   # Verus: exec `==` on the enum is spec equality
            if keep:
                out.append(line[:len(line) - len(line.lstrip())] + '#[derive(%s)]' % ', '.join(keep))
            continue
        out.append(line)
    if n:
        log.append(('D1', n))
    return '\n'.join(out)


def _remove_stmt_ranges(text, ranges):
    ranges = sorted(ranges)
    out = []
    last = 0
    for a, b in ranges:
        if a < last:
            continue
        out.append(text[last:a])
        last = b
    out.append(text[last:])
    return ''.join(out)


def _rule_d2(text, log):
    """Drop println!/print!/eprintln! statements, `if DEBUG { .. }` (with optional else kept? no: only
    plain `if DEBUG {..}` without else), and `else { if DEBUG {...} }` blocks that become empty."""
    m = rs.mask(text)
    ranges = []
    for mm in re.finditer(r'\b(println|print|eprintln|dbg|debug)!\s*\(', m):
        close = rs.match_brace(m, mm.end() - 1)
        j = close + 1
        while j < len(m) and m[j] in ' \t':
            j += 1
        if j < len(m) and m[j] == ';':
            j += 1
        ranges.append((mm.start(), j))
    for mm in re.finditer(r'\bif\s+DEBUG\s*\{', m):
        close = rs.match_brace(m, mm.end() - 1)
        ranges.append((mm.start(), close + 1))
    if ranges:
        log.append(('D2', len(ranges)))
        text = _remove_stmt_ranges(text, ranges)
        # an `else { }` that only held a debug print
        text2 = re.sub(r'\belse\s*\{\s*\}', '', text)
        text = text2
    return text


def _rule_r18(text, log):
    """error-message payloads: `"literal".into()`, `"literal".to_string()` and `format!(..)` -> err_string()
    (the text of a message is not modelled; the unit supplies `fn err_string() -> String`)."""
    n = 0
    m = rs.mask(text)
    ranges = []
    for mm in re.finditer(r'\bformat!\s*\(', m):
        close = rs.match_brace(m, mm.end() - 1)
        ranges.append((mm.start(), close + 1))
    # masked string literals keep their quotes; find "..."<.into()|.to_string()>
    for mm in re.finditer(r'"[^"]*"\s*\.\s*(into|to_string)\(\)', m):
        if not any(a <= mm.start() < b for a, b in ranges):
            ranges.append((mm.start(), mm.end()))
    ranges.sort()
    out, last = [], 0
    for a, b in ranges:
        out.append(text[last:a])
        out.append('err_string()')
        last = b
        n += 1
    out.append(text[last:])
    if n:
        log.append(('R18', n))
    return ''.join(out)


def _rule_r27(text, log):
    """`panic!(..)` -> `runtime_panic()` (the unit supplies `fn runtime_panic<A>() -> A requires false`): reaching the
    panic becomes a proof obligation of the function (its precondition must exclude it); the message is not modelled."""
    m = rs.mask(text)
    out, last, n = [], 0, 0
    for mm in re.finditer(r'\bpanic!\s*\(', m):
        if mm.start() < last:
            continue
        close = rs.match_brace(m, mm.end() - 1)
        out.append(text[last:mm.start()])
        out.append('runtime_panic()')
        last = close + 1
        n += 1
    out.append(text[last:])
    if n:
        log.append(('R27', n))
    return ''.join(out)


def _rule_r20(text, log):
    """`let mut IT = E.windows(2); while let Some([A, B]) = IT.next() {`  ->  index loop over adjacent pairs:
    `let mut __w: usize = 0; while __w + 1 < E.len() { let A = &E[__w]; let B = &E[__w + 1]; __w += 1;`
    (the increment is at the START of the body so that `continue` keeps its meaning)."""
    rx = re.compile(r'let\s+mut\s+([a-z_][a-z0-9_]*)\s*=\s*([a-z_][a-z0-9_.]*)\.windows\(2\);\s*'
                    r'while\s+let\s+Some\(\[\s*([a-z_][a-z0-9_]*)\s*,\s*([a-z_][a-z0-9_]*)\s*\]\)\s*=\s*\1\.next\(\)\s*\{')
    def rep(mm):
        E, A, B = mm.group(2), mm.group(3), mm.group(4)
        return ('let mut __w: usize = 0;\n        while __w + 1 < %s.len() {\n            let %s = &%s[__w]; let %s = &%s[__w + 1]; __w += 1;' % (E, A, E, B, E))
    text, n = rx.subn(rep, text)
    if n:
        log.append(('R20', n))
    return text


def _rule_r21(text, log):
    """last element of a vector of Copy items: `X.last().expect(..).clone()`, `X.last().unwrap().clone()`,
    `*X.last().unwrap()`  ->  `X[X.len() - 1]` (the index obligation replaces the panic of expect/unwrap)."""
    n = 0
    m = rs.mask(text)
    rx = re.compile(r'([a-z_][a-z0-9_]*)\s*\.last\(\)\s*\.(expect|unwrap)\(')
    pieces, last = [], 0
    for mm in rx.finditer(m):
        close = rs.match_brace(m, mm.end() - 1)
        tail = re.match(r'\s*\.clone\(\)', m[close + 1:])
        start = mm.start()
        end = close + 1
        if tail:
            end += tail.end()
        else:
            k = start - 1
            while k >= 0 and m[k] in ' \t\n':
                k -= 1
            if k >= 0 and m[k] == '*':
                start = k
            else:
                continue
        X = mm.group(1)
        pieces.append(text[last:start])
        pieces.append('%s[%s.len() - 1]' % (X, X))
        last = end
        n += 1
    pieces.append(text[last:])
    if n:
        log.append(('R21', n))
    return ''.join(pieces)


def _rule_r23(text, log):
    """`while let PAT = EXPR { BODY }`  ->  `loop { match EXPR { PAT => { BODY } _ => { break; } } }`
    (Verus does not hand the failed match to the code after a `while let`; a `loop` with `ensures` does)."""
    n = 0
    while True:
        m = rs.mask(text)
        mm = re.search(r'\bwhile\s+let\s+', m)
        if not mm:
            break
        # pattern up to the top-level '=' ; expression up to the top-level '{'
        i = mm.end()
        depth = 0
        eq = -1
        while i < len(m):
            c = m[i]
            if c in '([{':
                if c == '{' and depth == 0 and eq >= 0:
                    break
                depth += 1
            elif c in ')]}':
                depth -= 1
            elif c == '=' and depth == 0 and eq < 0 and m[i + 1] != '=' and m[i - 1] not in '=!<>':
                eq = i
            i += 1
        if eq < 0 or i >= len(m):
            raise Unsupported('R23: while let shape not recognised')
        ob = i
        cb = rs.match_brace(m, ob)
        pat = text[mm.end():eq].strip()
        expr = text[eq + 1:ob].strip()
        body = text[ob + 1:cb]
        rep = 'loop { match %s { %s => {%s} _ => { break; } } }' % (expr, pat, body)
        text = text[:mm.start()] + rep + text[cb + 1:]
        n += 1
    if n:
        log.append(('R23', n))
    return text


def _rule_r24(text, log):
    """`X.sort_by(|a, b| { BODY });`  ->  the comparator is bound to a name and handed to `vec_sort_by` (prelude seqs,
    ASSUMED std contract of sort_by): `{ let __cmpN = |a: __ELTN, b: __ELTN| -> (__o: Ordering) /*@closure N*/ { BODY };
    vec_sort_by(X, __cmpN); }`.  The element type comes from a unit rule `S:__ELTN=>..`, the closure's contract
    from the `//@closure N` section of the item (spliced at the marker)."""
    n = 0
    while True:
        m = rs.mask(text)
        mm = re.search(r'\b([a-z_][a-z0-9_]*)\s*\.sort_by\(\s*\|\s*([a-z_][a-z0-9_]*)\s*,\s*([a-z_][a-z0-9_]*)\s*\|\s*\{', m)
        if not mm:
            break
        n += 1
        ob = mm.end() - 1
        cb = rs.match_brace(m, ob)
        op = m.index('(', mm.start())
        cp = rs.match_brace(m, op)
        if m[cb + 1:cp].strip() != '':
            raise Unsupported('R24: sort_by closure shape not recognised')
        body = text[ob:cb + 1]
        rep = ('{ let __cmp%d = |%s: __ELT%d, %s: __ELT%d| -> (__o: core::cmp::Ordering) /*@closure %d*/ %s;\n'
               '            vec_sort_by(%s, __cmp%d); }') % (n, mm.group(2), n, mm.group(3), n, n, body, mm.group(1), n)
        text = text[:mm.start()] + rep + text[cp + 1:]
    if n:
        log.append(('R24', n))
    return text


def _rule_r28(text, log):
    """`let NAME = |PARAMS| -> T {`  (a closure bound to a name, explicit return type)  ->
    `let NAME = |PARAMS| -> (__o: T) /*@closure N*/ {`: the result gets a name and the closure a contract taken from the
    `//@closure N` section of the item (N counts these closures in source order); the body stays verbatim and the
    contract is PROVED from it.  A `return E;` that is the whole body is written as the tail expression `E`."""
    n = 0
    pos = 0
    while True:
        m = rs.mask(text)
        mm = re.compile(r'\blet\s+([a-z_][a-z0-9_]*)\s*=\s*(\|[^|]*\|)\s*->\s*([A-Za-z_][A-Za-z0-9_<>\[\]; ,:&]*?)\s*\{').search(m, pos)
        if not mm:
            break
        n += 1
        ob = mm.end() - 1
        cb = rs.match_brace(m, ob)
        body = text[ob + 1:cb]
        mb = re.match(r'\s*(?://[^\n]*\n\s*)*return\s+(.*?);\s*$', body, re.S)
        if mb and 'return' not in rs.mask(mb.group(1)):
            body = '\n' + mb.group(1) + '\n'
        rep = 'let %s = %s -> (__o: %s) /*@closure %d*/ {%s}' % (mm.group(1), text[mm.start(2):mm.end(2)], text[mm.start(3):mm.end(3)].strip(), n, body)
        text = text[:mm.start()] + rep + text[cb + 1:]
        pos = mm.start() + len(rep)
    if n:
        log.append(('R28', n))
    return text


def _rule_r29(text, log):
    """numeric casts between usize and f64 (Verus gives exec casts of floats no meaning):
    `(E).ceil() as usize` -> `ceil_to_usize(E)`;  `IDENT as f64` (a plain local, not a field or an element) ->
    `usize_to_f64(IDENT)`.  The shims live in prelude fl: ceil_to_usize returns an uninterpreted function of its argument,
    usize_to_f64(n) is finite with real value n (exact below 2^53; M2).  A non-usize IDENT is a type error in the
    generated file (undecided, never an alarm)."""
    n = 0
    while True:
        m = rs.mask(text)
        mm = re.search(r'\)\s*\.ceil\(\)\s+as\s+usize\b', m)
        if not mm:
            break
        close = mm.start()
        # matching open parenthesis
        d = 0
        k = close
        while k >= 0:
            if m[k] == ')':
                d += 1
            elif m[k] == '(':
                d -= 1
                if d == 0:
                    break
            k -= 1
        if k < 0:
            raise Unsupported('R29: unbalanced parentheses before .ceil()')
        text = text[:k] + 'ceil_to_usize(' + text[k + 1:close] + ')' + text[mm.end():]
        n += 1
    text, c2 = re.subn(r'(?<![\w.\]\)])([a-z_][a-z0-9_]*)\s+as\s+f64\b', r'usize_to_f64(\1)', text)
    n += c2
    if n:
        log.append(('R29', n))
    return text


def _rule_r25(text, log, types):
    """rule DEREF:T1,T2: a variable declared `name: &T` (parameter or annotated let) that is a direct operand of a
    binary `* + -` is dereferenced: `name * x` -> `(*name) * x`.  For the Copy shim types named in the rule the
    reference and value operators of the dependency agree; Verus crashes on operators with reference operands."""
    m = rs.mask(text)
    names = set(re.findall(r'\b([A-Za-z_][A-Za-z0-9_]*)\s*:\s*&\s*(?:%s)\b' % '|'.join(re.escape(t) for t in types), m))
    if not names:
        return text
    n = 0
    out, last = [], 0
    for mm in re.finditer(r'\b(%s)\b' % '|'.join(sorted(names)), m):
        a, b = mm.start(), mm.end()
        # not a declaration, field, call, index or path segment
        j = b
        while j < len(m) and m[j] in ' \t\n':
            j += 1
        nxt = m[j] if j < len(m) else ''
        i = a - 1
        while i >= 0 and m[i] in ' \t\n':
            i -= 1
        prv = m[i] if i >= 0 else ''
        if nxt in ':.([' or prv in '.&:|' or (nxt == '-' and m[j:j + 2] == '->'):
            continue
        binary_after = nxt in '*+-' and m[j:j + 2] not in ('+=', '-=', '*=')
        binary_before = False
        if prv in '*+-':
            k = i - 1
            while k >= 0 and m[k] in ' \t\n':
                k -= 1
            binary_before = k >= 0 and (m[k].isalnum() or m[k] in '_)]')
        elif prv == '*':
            continue
        if prv == '*' and not binary_before:
            continue   # already dereferenced
        if not (binary_after or binary_before):
            continue
        out.append(text[last:a])
        out.append('(*%s)' % mm.group(1))
        last = b
        n += 1
    out.append(text[last:])
    if n:
        log.append(('R25', n))
    return ''.join(out)


def _rule_r26(text, log):
    """`[e1, .., en].iter().fold(f64::NEG_INFINITY, |a, &b| a.max(b))`  ->  the left fold written out:
    `({ let __f0: f64 = NEG_INFINITY; let __f1 = __f0.max(e1); ..; __fn })` (definition of Iterator::fold)."""
    n = 0
    while True:
        m = rs.mask(text)
        mm = re.search(r'\]\s*\.iter\(\)\s*\.fold\(\s*f64::NEG_INFINITY\s*,\s*\|\s*([a-z_]+)\s*,\s*&\s*([a-z_]+)\s*\|\s*\1\.max\(\s*\2\s*\)\s*\)', m)
        if not mm:
            break
        cb = mm.start()
        # matching '[' backwards
        depth, i = 0, cb
        while i >= 0:
            if m[i] == ']':
                depth += 1
            elif m[i] == '[':
                depth -= 1
                if depth == 0:
                    break
            i -= 1
        if i < 0:
            raise Unsupported('R26: array literal not found')
        elems = _split_top(text[i + 1:cb])
        parts = ['let __f0: f64 = NEG_INFINITY;']
        for k, e in enumerate(elems):
            parts.append('let __f%d = __f%d.max(%s);' % (k + 1, k, e))
        rep = '({ ' + ' '.join(parts) + ' __f%d })' % len(elems)
        text = text[:i] + rep + text[mm.end():]
        n += 1
    if n:
        log.append(('R26', n))
    return text


_UNARY_PREV = set('(,=[{;<>+-*/%!&|:?')


def _rule_r8(text, log):
    """unary minus on a float operand -> fneg(operand).  Operand = literal is left alone
    (negative float literals are accepted); otherwise a primary expression with postfix
    .field / .method(..) / [..] / (..) chains."""
    m = rs.mask(text)
    out = []
    i = 0
    n = 0
    L = len(m)
    res = []
    last = 0
    while i < L:
        if m[i] == '-' and i + 1 < L and m[i + 1] not in '=>-':
            # previous significant char
            k = i - 1
            while k >= 0 and m[k] in ' \t\r\n':
                k -= 1
            prevc = m[k] if k >= 0 else '('
            is_unary = prevc in _UNARY_PREV
            if not is_unary:
                # keyword before? (return -x / in -x)
                w = re.search(r'([A-Za-z_]+)$', m[:k + 1])
                if w and w.group(1) in ('return', 'in', 'else', 'match', 'if', 'while'):
                    is_unary = True
            if prevc == '-' and k >= 0:
                is_unary = False  # `--` never occurs; be conservative
            if prevc == '>' and k >= 1 and m[k - 1] == '-':
                is_unary = True   # after `->` cannot be an expression; ignore
            if is_unary:
                j = i + 1
                while j < L and m[j] in ' \t':
                    j += 1
                # literal?
                if j < L and (m[j].isdigit()):
                    i += 1
                    continue
                # primary
                st = j
                if j < L and m[j] == '(':
                    j = rs.match_brace(m, j) + 1
                elif j < L and m[j] == '*':
                    # deref: -*now
                    j += 1
                    mm = re.match(r'[A-Za-z_][A-Za-z0-9_]*(?:::[A-Za-z_][A-Za-z0-9_]*)*', m[j:])
                    if not mm:
                        raise Unsupported('R8: operand of unary minus not recognised near: %r' % text[i:i + 30])
                    j += mm.end()
                else:
                    mm = re.match(r'[A-Za-z_][A-Za-z0-9_]*(?:::[A-Za-z_][A-Za-z0-9_]*)*', m[j:])
                    if not mm:
                        raise Unsupported('R8: operand of unary minus not recognised near: %r' % text[i:i + 30])
                    j += mm.end()
                # postfix chain
                while j < L:
                    if m[j] in '([':
                        j = rs.match_brace(m, j) + 1
                    elif m[j] == '.' and j + 1 < L and (m[j + 1].isalpha() or m[j + 1] == '_' or m[j + 1].isdigit()):
                        mm = re.match(r'\.[A-Za-z_0-9]+', m[j:])
                        j += mm.end()
                    else:
                        break
                res.append((i, st, j))
                i = j
                continue
        i += 1
    if not res:
        return text
    # apply (innermost-safe: ranges are disjoint because we skip to j)
    outp = []
    last = 0
    for (a, st, b) in res:
        outp.append(text[last:a])
        inner = _rule_r8(text[st:b], [])  # nested negations inside the operand
        outp.append('fneg(' + inner + ')')
        last = b
    outp.append(text[last:])
    log.append(('R8', len(res)))
    return ''.join(outp)


def _replace_elem(body, x, repl):
    """occurrences of the `&mut` element variable x: a UNARY `*x` and a bare `x` (auto-deref in `x[i]`, `x.f`) both
    become the element expression; a binary `a * x[..]` keeps its operator"""
    mb = rs.mask(body)
    out, last = [], 0
    for mm in re.finditer(r'\b%s\b' % re.escape(x), mb):
        a = mm.start()
        i = a - 1
        while i >= 0 and mb[i] in ' \t\n':
            i -= 1
        start = a
        if i >= 0 and mb[i] == '*':
            k = i - 1
            while k >= 0 and mb[k] in ' \t\n':
                k -= 1
            binary = k >= 0 and (mb[k].isalnum() or mb[k] in '_)]')
            if not binary:
                start = i
        if i >= 0 and mb[i] == '.':
            continue
        out.append(body[last:start])
        out.append(repl)
        last = mm.end()
    out.append(body[last:])
    return ''.join(out)


def _rule_r2_r3(text, log):
    """R2: `for v in ARRAY {` (array by value, upper-case const name) ->
           `for __i_v in 0..ARRAY.len() { let v = ARRAY[__i_v];`
       R3: `for (i, x) in E.iter().enumerate() {` -> `for i in 0..E.len() { let x = &E[i];`"""
    n2 = n3 = 0

    def r3(mm):
        nonlocal n3
        n3 += 1
        return '%sfor %s in 0..%s.len() { let %s = &%s[%s];' % (mm.group(1), mm.group(2), mm.group(4), mm.group(3), mm.group(4), mm.group(2))
    text = re.sub(r"((?:'[a-z_]+\s*:\s*)?)for\s*\(\s*([a-z_][a-z0-9_]*)\s*,\s*([a-z_][a-z0-9_]*)\s*\)\s+in\s+([A-Za-z_][A-Za-z0-9_.]*?)\.iter\(\)\.enumerate\(\)\s*\{", r3, text)

    def r3v(mm):
        nonlocal n3
        n3 += 1
        return '%sfor %s in 0..%s.len() { let %s = %s[%s];' % (mm.group(1), mm.group(2), mm.group(4), mm.group(3), mm.group(4), mm.group(2))
    text = re.sub(r"((?:'[a-z_]+\s*:\s*)?)for\s*\(\s*([a-z_][a-z0-9_]*)\s*,\s*([a-z_][a-z0-9_]*|\([a-z0-9_,\s]*\))\s*\)\s+in\s+([A-Za-z_][A-Za-z0-9_.]*?)\.into_iter\(\)\.enumerate\(\)\s*\{", r3v, text)

    def r2(mm):
        nonlocal n2
        n2 += 1
        # a `while` with an explicit index (a `for` over a range hides its iterator state, which a labelled
        # `break` out of a nested loop would need in the inner invariants); the index is advanced right after the
        # element is read, so `continue` behaves as in the original
        return ('let mut __i_%s: usize = 0; %swhile __i_%s < %s.len() { let %s = %s[__i_%s]; __i_%s = __i_%s + 1;'
                % (mm.group(2), mm.group(1), mm.group(2), mm.group(3), mm.group(2), mm.group(3), mm.group(2), mm.group(2), mm.group(2)))
    text = re.sub(r"((?:'[a-z_]+\s*:\s*)?)for\s+([a-z_][a-z0-9_]*)\s+in\s+([A-Z][A-Z0-9_]*)\s*\{", r2, text)
    # R3c (only when the unit enables it): `for x in v {` over a Vec<T: Copy> named by a plain identifier -> index loop
    if 'R3c' in _ACTIVE_RULES:
        def r3c(mm):
            nonlocal n3
            n3 += 1
            return '%sfor __i_%s in 0..%s.len() { let %s = %s[__i_%s];' % (mm.group(1), mm.group(2), mm.group(3), mm.group(2), mm.group(3), mm.group(2))
        text = re.sub(r"((?:'[a-z_]+\s*:\s*)?)for\s+([a-z_][a-z0-9_]*)\s+in\s+([a-z_][a-z0-9_]*)\s*\{", r3c, text)
    # R3b: `for x in E.iter_mut() { BODY }` -> index loop, `*x` replaced by `E[i]` in BODY
    while True:
        m = rs.mask(text)
        mm = re.search(r"for\s+([a-z_][a-z0-9_]*)\s+in\s+([A-Za-z_][A-Za-z0-9_.]*)\.iter_mut\(\)\s*\{", m)
        if not mm:
            break
        bo = mm.end() - 1
        bc = rs.match_brace(m, bo)
        x, E = mm.group(1), mm.group(2)
        body = text[bo + 1:bc]
        body = _replace_elem(body, x, '%s[__i_%s]' % (E, x))
        text = text[:mm.start()] + 'for __i_%s in 0..%s.len() {' % (x, E) + body + text[bc:]
        n3 += 1
    if n2:
        log.append(('R2', n2))
    if n3:
        log.append(('R3', n3))
    return text



def _rule_r6(text, log):
    """R6: iterator-adapter chains of the exact shapes below are replaced by their defining loops
    (std documentation of Iterator::all / filter / cloned / collect / zip / map / sum / for_each):
      a) E.iter().enumerate().all(|(i, &v)| BODY)      -> index loop with early exit, BODY verbatim
      b) E.iter().all(|&v| BODY)                       -> same without index
      c) E.into_iter().filter(|x| PRED).cloned().collect() -> push loop (x bound to &E[i]), PRED verbatim
      d) A.iter().zip(B.iter()).map(|(a, b)| BODY).sum() -> fold from 0.0 in index order (A, B fixed arrays of equal length)
      e) E.iter_mut().for_each(|x| STMT)               -> index loop, x replaced by E[i] in STMT
    """
    m = rs.mask(text)
    n = 0
    # helper to find the closure body extent: from position after `|...|` to the matching ')' of the adapter call
    def closure_body(m, open_paren):
        close = rs.match_brace(m, open_paren)
        inner = text[open_paren + 1:close]
        mm = re.match(r'\s*\|([^|]*)\|\s*', inner)
        if not mm:
            return None
        return mm.group(1).strip(), inner[mm.end():].strip(), close
    out = text
    # (a)/(b)
    while True:
        m = rs.mask(out)
        mm = re.search(r'([A-Za-z_][A-Za-z0-9_.]*)\.iter\(\)(\.enumerate\(\))?\.all\(', m)
        if not mm:
            break
        op = mm.end() - 1
        close = rs.match_brace(m, op)
        inner = out[op + 1:close]
        cm = re.match(r'\s*\|([^|]*)\|\s*', inner)
        if not cm:
            raise Unsupported('R6: closure not recognised in .all()')
        params, body = cm.group(1).strip(), inner[cm.end():].strip()
        E = mm.group(1)
        if mm.group(2):
            pm = re.match(r'\(\s*([a-z_][a-z0-9_]*)\s*,\s*&\s*([a-z_][a-z0-9_]*)\s*\)$', params)
            if not pm:
                raise Unsupported('R6a: closure parameters %r' % params)
            binds = 'let %s = __r6_i; let %s = %s[__r6_i];' % (pm.group(1), pm.group(2), E)
        else:
            pm = re.match(r'&\s*([a-z_][a-z0-9_]*)$', params)
            if not pm:
                raise Unsupported('R6b: closure parameters %r' % params)
            binds = 'let %s = %s[__r6_i];' % (pm.group(1), E)
        rep = ('({ let mut __r6_all = true; let mut __r6_i: usize = 0;\n'
               '            while __r6_i < %s.len() && __r6_all {\n'
               '                %s\n'
               '                let __r6_b: bool = %s;\n'
               '                if !__r6_b { __r6_all = false; }\n'
               '                __r6_i += 1;\n'
               '            }\n'
               '            __r6_all })') % (E, binds, body)
        out = out[:mm.start()] + rep + out[close + 1:]
        n += 1
    # (c)
    while True:
        m = rs.mask(out)
        mm = re.search(r'([A-Za-z_][A-Za-z0-9_.]*)\.into_iter\(\)\s*\.filter\(', m)
        if not mm:
            break
        op = mm.end() - 1
        close = rs.match_brace(m, op)
        tail = re.match(r'\s*\.cloned\(\)\s*\.collect\(\)', m[close + 1:])
        if not tail:
            raise Unsupported('R6c: filter not followed by .cloned().collect()')
        inner = out[op + 1:close]
        cm = re.match(r'\s*\|\s*([a-z_][a-z0-9_]*)\s*\|\s*', inner)
        if not cm:
            raise Unsupported('R6c: closure not recognised')
        x, pred = cm.group(1), inner[cm.end():].strip()
        E = mm.group(1)
        rep = ('({ let mut __r6_out = Vec::new(); let mut __r6_i: usize = 0;\n'
               '            while __r6_i < %s.len() {\n'
               '                let %s = &%s[__r6_i];\n'
               '                let __r6_b: bool = %s;\n'
               '                if __r6_b { __r6_out.push(*%s); }\n'
               '                __r6_i += 1;\n'
               '            }\n'
               '            __r6_out })') % (E, x, E, pred, x)
        out = out[:mm.start()] + rep + out[close + 1 + tail.end():]
        n += 1
    # (n) A.iter().zip(B).map(|(a, b)| BODY).collect::<Vec<_>>()  (B a slice / &Vec: zip stops at the shorter one)
    while True:
        m = rs.mask(out)
        mm = re.search(r'([A-Za-z_][A-Za-z0-9_]*)\s*\.iter\(\)\s*\.zip\(\s*([A-Za-z_][A-Za-z0-9_]*)\s*\)\s*\.map\(', m)
        if not mm:
            break
        op = mm.end() - 1
        close = rs.match_brace(m, op)
        tail = re.match(r'\s*\.collect(::<Vec<_>>)?\(\)', m[close + 1:])
        if not tail:
            raise Unsupported('R6n: map not followed by .collect()')
        inner = out[op + 1:close]
        cm = re.match(r'\s*\|\s*\(\s*([a-z_][a-z0-9_]*)\s*,\s*([a-z_][a-z0-9_]*)\s*\)\s*\|\s*', inner)
        if not cm:
            raise Unsupported('R6n: closure not recognised')
        a, b, body = cm.group(1), cm.group(2), inner[cm.end():].strip()
        A, B = mm.group(1), mm.group(2)
        rep = ('({ let mut __r6_out = Vec::new(); let mut __r6_i: usize = 0;\n'
               '        while __r6_i < %s.len() && __r6_i < %s.len() {\n'
               '            let %s = &%s[__r6_i]; let %s = &%s[__r6_i];\n'
               '            let __r6_t = %s;\n'
               '            __r6_out.push(__r6_t);\n'
               '            __r6_i += 1;\n'
               '        }\n'
               '        __r6_out })') % (A, B, a, A, b, B, body)
        out = out[:mm.start()] + rep + out[close + 1 + tail.end():]
        n += 1
    # (d)
    while True:
        m = rs.mask(out)
        mm = re.search(r'([A-Za-z_][A-Za-z0-9_]*)\.iter\(\)\s*\.zip\(\s*([A-Za-z_][A-Za-z0-9_]*)\.iter\(\)\s*\)\s*\.map\(', m)
        if not mm:
            break
        op = mm.end() - 1
        close = rs.match_brace(m, op)
        tail = re.match(r'\s*\.sum\(\)', m[close + 1:])
        if not tail:
            raise Unsupported('R6d: map not followed by .sum()')
        inner = out[op + 1:close]
        cm = re.match(r'\s*\|\s*\(\s*([a-z_][a-z0-9_]*)\s*,\s*([a-z_][a-z0-9_]*)\s*\)\s*\|\s*', inner)
        if not cm:
            raise Unsupported('R6d: closure not recognised')
        a, b, body = cm.group(1), cm.group(2), inner[cm.end():].strip()
        A, B = mm.group(1), mm.group(2)
        rep = ('({ let mut __r6_sum: f64 = 0.0; let mut __r6_i: usize = 0;\n'
               '        while __r6_i < %s.len() {\n'
               '            let %s = &%s[__r6_i]; let %s = &%s[__r6_i];\n'
               '            let __r6_t: f64 = %s;\n'
               '            __r6_sum = __r6_sum + __r6_t;\n'
               '            __r6_i += 1;\n'
               '        }\n'
               '        __r6_sum })') % (A, a, A, b, B, body)
        out = out[:mm.start()] + rep + out[close + 1 + tail.end():]
        n += 1
    # (e)
    while True:
        m = rs.mask(out)
        mm = re.search(r'([A-Za-z_][A-Za-z0-9_.]*)\.iter_mut\(\)\s*\.for_each\(', m)
        if not mm:
            break
        op = mm.end() - 1
        close = rs.match_brace(m, op)
        inner = out[op + 1:close]
        cm = re.match(r'\s*\|\s*([a-z_][a-z0-9_]*)\s*\|\s*', inner)
        if not cm:
            raise Unsupported('R6e: closure not recognised')
        x, stmt = cm.group(1), inner[cm.end():].strip()
        E = mm.group(1)
        stmt2 = re.sub(r'\b%s\b' % re.escape(x), '%s[__r6_i]' % E, stmt)
        rep = ('({ let mut __r6_i: usize = 0;\n'
               '        while __r6_i < %s.len() {\n'
               '            %s;\n'
               '            __r6_i += 1;\n'
               '        } })') % (E, stmt2)
        out = out[:mm.start()] + rep + out[close + 1:]
        n += 1
    # (h) E.par_iter().filter_map(|&(a, b)| { BODY }).collect()  (rayon: sequential semantics, order kept - assumed)
    #     BODY uses `return None;` / `return Some(e);`: these become `continue;` / `{ out.push(e); continue; }`
    while True:
        m = rs.mask(out)
        mm = re.search(r'([a-z_][a-z0-9_]*)\s*\.par_iter\(\)\s*\.filter_map\(', m)
        if not mm:
            break
        op = mm.end() - 1
        close = rs.match_brace(m, op)
        tail = re.match(r'\s*\.collect\(\)', m[close + 1:])
        if not tail:
            raise Unsupported('R6h: filter_map not followed by .collect()')
        inner = out[op + 1:close]
        cm = re.match(r'\s*\|\s*&\s*(\([^|]*\))\s*\|\s*\{', inner)
        if not cm:
            # (h2) expression closure `|x| EXPR` with EXPR: Option<T>  ->  push the Some values in order
            cm2 = re.match(r'\s*\|\s*([a-z_][a-z0-9_]*)\s*\|\s*', inner)
            if not cm2 or inner[cm2.end():].lstrip().startswith('{'):
                raise Unsupported('R6h: closure not recognised')
            E = mm.group(1)
            rep = ('({ let mut __r6_hits = Vec::new(); let mut __r6_i: usize = 0;\n'
                   '        while __r6_i < %s.len() {\n'
                   '            let %s = &%s[__r6_i];\n'
                   '            match %s { Some(__r6_v) => { __r6_hits.push(__r6_v); } None => {} }\n'
                   '            __r6_i += 1;\n'
                   '        }\n'
                   '        __r6_hits })') % (E, cm2.group(1), E, inner[cm2.end():].strip())
            out = out[:mm.start()] + rep + out[close + 1 + tail.end():]
            n += 1
            continue
        pat = cm.group(1)
        bopen = cm.end() - 1
        bclose = rs.match_brace(rs.mask(inner), bopen)
        body = inner[bopen + 1:bclose]
        body = re.sub(r'return\s+None\s*;', 'continue;', body)
        body = re.sub(r'return\s+Some\(([^;]*)\)\s*;', r'{ __r6_out.push(\1); continue; }', body)
        E = mm.group(1)
        rep = ('({ let mut __r6_out = Vec::new(); let mut __r6_i: usize = 0;\n'
               '        while __r6_i < %s.len() {\n'
               '            let %s = %s[__r6_i]; __r6_i = __r6_i + 1;\n'
               '%s\n'
               '        }\n'
               '        __r6_out })') % (E, pat, E, body)
        out = out[:mm.start()] + rep + out[close + 1 + tail.end():]
        n += 1
    # (i) E.par_iter()[.filter(|y| P)].any(|x| BODY)  (rayon: some element [satisfying P] satisfies BODY) -> loop with early exit
    while True:
        m = rs.mask(out)
        mm = re.search(r'([a-z_][a-z0-9_]*)\s*\.par_iter\(\)\s*\.(any|filter)\(', m)
        if not mm:
            break
        E = mm.group(1)
        pred = None
        op = mm.end() - 1
        close = rs.match_brace(m, op)
        if mm.group(2) == 'filter':
            finner = out[op + 1:close]
            fm = re.match(r'\s*\|\s*([a-z_][a-z0-9_]*)\s*\|\s*', finner)
            am = re.match(r'\s*\.any\(', m[close + 1:])
            if not fm or not am:
                raise Unsupported('R6i: par_iter().filter(..) not followed by .any(..)')
            pred = (fm.group(1), finner[fm.end():].strip())
            op = close + 1 + am.end() - 1
            close = rs.match_brace(m, op)
        inner = out[op + 1:close]
        cm = re.match(r'\s*\|\s*([a-z_][a-z0-9_]*)\s*\|\s*', inner)
        if not cm:
            raise Unsupported('R6i: closure not recognised')
        x, body = cm.group(1), inner[cm.end():].strip()
        if pred is None:
            test = 'let __r6_b: bool = %s;' % body
        else:
            # the filter closure sees `&&T`; auto-deref makes the same method calls valid on `&T`
            test = 'let %s = %s; let __r6_p: bool = %s; let __r6_b: bool = if __r6_p { %s } else { false };' % (pred[0], x, pred[1], body)
        rep = ('({ let mut __r6_any = false; let mut __r6_i: usize = 0;\n'
               '            while __r6_i < %s.len() && !__r6_any {\n'
               '                let %s = &%s[__r6_i];\n'
               '                %s\n'
               '                if __r6_b { __r6_any = true; }\n'
               '                __r6_i += 1;\n'
               '            }\n'
               '            __r6_any })') % (E, x, E, test)
        out = out[:mm.start()] + rep + out[close + 1:]
        n += 1
    # (k) E.par_iter().find_map_any(|x| BODY).unwrap_or_else(|| ALT)   (rayon: Some(f(x)) for SOME x with f(x) = Some,
    #     None if there is none) -> loop that stops at the first Some; contracts must not depend on which one
    while True:
        m = rs.mask(out)
        mm = re.search(r'([a-z_][a-z0-9_]*)\s*\.par_iter\(\)\s*\.find_map_any\(', m)
        if not mm:
            break
        op = mm.end() - 1
        close = rs.match_brace(m, op)
        inner = out[op + 1:close]
        cm = re.match(r'\s*\|\s*([a-z_][a-z0-9_]*)\s*\|\s*', inner)
        tm = re.match(r'\s*\.unwrap_or_else\(', m[close + 1:])
        tm2 = re.match(r'\s*\.into_iter\(\)\s*\.collect\(\)', m[close + 1:])
        if cm and tm2:
            # (k2) `.find_map_any(|x| EXPR).into_iter().collect()`: the vector of the (at most one) value found
            E = mm.group(1)
            rep = ('({ let mut __r6_hits = Vec::new(); let mut __r6_i: usize = 0;\n'
                   '            while __r6_i < %s.len() && __r6_hits.len() == 0 {\n'
                   '                let %s = &%s[__r6_i];\n'
                   '                match %s { Some(__r6_v) => { __r6_hits.push(__r6_v); } None => {} }\n'
                   '                __r6_i += 1;\n'
                   '            }\n'
                   '            __r6_hits })') % (E, cm.group(1), E, inner[cm.end():].strip())
            out = out[:mm.start()] + rep + out[close + 1 + tm2.end():]
            n += 1
            continue
        if not cm or not tm:
            raise Unsupported('R6k: find_map_any(..).unwrap_or_else(..) shape not recognised')
        x, body = cm.group(1), inner[cm.end():].strip()
        op2 = close + 1 + tm.end() - 1
        close2 = rs.match_brace(m, op2)
        alt = out[op2 + 1:close2]
        am = re.match(r'\s*\|\|\s*', alt)
        if not am:
            raise Unsupported('R6k: unwrap_or_else closure not recognised')
        alt = alt[am.end():].strip()
        E = mm.group(1)
        rep = ('({ let mut __r6_found = None; let mut __r6_i: usize = 0;\n'
               '            while __r6_i < %s.len() && __r6_found.is_none() {\n'
               '                let %s = &%s[__r6_i];\n'
               '                __r6_found = %s;\n'
               '                __r6_i += 1;\n'
               '            }\n'
               '            match __r6_found { Some(__r6_v) => __r6_v, None => %s } })') % (E, x, E, body, alt)
        out = out[:mm.start()] + rep + out[close2 + 1:]
        n += 1
    # (m) (A..B).into_iter().map(|i| BODY).collect()  -> loop pushing BODY for i = A, A+1, .., B-1 in order
    while True:
        m = rs.mask(out)
        mm = re.search(r'\(\s*([A-Za-z0-9_]+)\s*\.\.\s*([A-Za-z0-9_.()]+?)\s*\)\s*\.into_iter\(\)\s*\.map\(', m)
        if not mm:
            break
        op = mm.end() - 1
        close = rs.match_brace(m, op)
        inner = out[op + 1:close]
        cm = re.match(r'\s*\|\s*([a-z_][a-z0-9_]*)\s*\|\s*', inner)
        tm = re.match(r'\s*\.collect\(\)', m[close + 1:])
        if not cm or not tm:
            raise Unsupported('R6m: (a..b).into_iter().map(..).collect() shape not recognised')
        x, body = cm.group(1), inner[cm.end():].strip()
        rep = ('({ let mut __r6_out = Vec::new(); let mut __r6_k: usize = %s;\n'
               '            while __r6_k < %s {\n'
               '                let %s = __r6_k;\n'
               '                let __r6_e = %s;\n'
               '                __r6_out.push(__r6_e);\n'
               '                __r6_k += 1;\n'
               '            }\n'
               '            __r6_out })') % (mm.group(1), mm.group(2), x, body)
        out = out[:mm.start()] + rep + out[close + 1 + tm.end():]
        n += 1
    # (j) E.retain(|x| BODY);  -> rebuild E from the elements for which BODY holds, in order (T: Copy)
    while True:
        m = rs.mask(out)
        mm = re.search(r'([a-z_][a-z0-9_]*)\s*\.retain\(', m)
        if not mm:
            break
        op = mm.end() - 1
        close = rs.match_brace(m, op)
        inner = out[op + 1:close]
        cm = re.match(r'\s*\|\s*([a-z_][a-z0-9_]*)\s*\|\s*', inner)
        if not cm:
            raise Unsupported('R6j: closure not recognised')
        x, body = cm.group(1), inner[cm.end():].strip()
        E = mm.group(1)
        rep = ('({ let mut __r6_keep = vec_empty_like(&%s); let mut __r6_i: usize = 0;\n'
               '            while __r6_i < %s.len() {\n'
               '                let %s = &%s[__r6_i];\n'
               '                let __r6_b: bool = %s;\n'
               '                if __r6_b { __r6_keep.push(%s[__r6_i]); }\n'
               '                __r6_i += 1;\n'
               '            }\n'
               '            %s = __r6_keep; })') % (E, E, x, E, body, E, E)
        out = out[:mm.start()] + rep + out[close + 1:]
        n += 1
    # (o) RECV.iter().enumerate().map(|(i, x)| BODY).collect()  and  (p) RECV.iter().collect()  (vector of references)
    def _recv_before(m_, pos):
        k = pos - 1
        d = 0
        while k >= 0:
            ch = m_[k]
            if ch in ')]}':
                d += 1
            elif ch in '([{':
                if d == 0:
                    break
                d -= 1
            elif d == 0 and ch in ';=':
                break
            k -= 1
        return k + 1
    while True:
        m = rs.mask(out)
        mm = re.search(r'\s*\.iter\(\)\s*\.enumerate\(\)\s*\.map\(', m)
        if not mm:
            break
        op = mm.end() - 1
        close = rs.match_brace(m, op)
        tail = re.match(r'\s*\.collect\(\)', m[close + 1:])
        inner = out[op + 1:close]
        cm = re.match(r'\s*\|\s*\(\s*([a-z_][a-z0-9_]*)\s*,\s*([a-z_][a-z0-9_]*)\s*\)\s*\|\s*', inner)
        if not tail or not cm:
            raise Unsupported('R6o: iter().enumerate().map(..).collect() shape not recognised')
        rs_ = _recv_before(m, mm.start())
        recv = re.sub(r'\s+', '', out[rs_:mm.start()])
        lead = out[rs_:mm.start()]
        lead_ws = lead[:len(lead) - len(lead.lstrip())]
        rep = ('%s({ let mut __r6_out = Vec::new(); let mut __r6_i: usize = 0;\n'
               '            while __r6_i < %s.len() {\n'
               '                let %s = __r6_i; let %s = &%s[__r6_i];\n'
               '                let __r6_e = %s;\n'
               '                __r6_out.push(__r6_e);\n'
               '                __r6_i += 1;\n'
               '            }\n'
               '            __r6_out })') % (lead_ws, recv, cm.group(1), cm.group(2), recv, inner[cm.end():].strip())
        out = out[:rs_] + rep + out[close + 1 + tail.end():]
        n += 1
    while True:
        m = rs.mask(out)
        mm = re.search(r'\s*\.iter\(\)\s*\.collect\(\)', m)
        if not mm:
            break
        rs_ = _recv_before(m, mm.start())
        recv = re.sub(r'\s+', '', out[rs_:mm.start()])
        lead = out[rs_:mm.start()]
        lead_ws = lead[:len(lead) - len(lead.lstrip())]
        rep = ('%s({ let mut __r6_out = Vec::new(); let mut __r6_i: usize = 0;\n'
               '            while __r6_i < %s.len() {\n'
               '                __r6_out.push(&%s[__r6_i]);\n'
               '                __r6_i += 1;\n'
               '            }\n'
               '            __r6_out })') % (lead_ws, recv, recv)
        out = out[:rs_] + rep + out[mm.end():]
        n += 1
    # (g) EXPR.iter().map(|&x| BODY).collect()  where EXPR is the (possibly multi-line) receiver chain of the statement
    while True:
        m = rs.mask(out)
        mm = re.search(r'\.iter\(\)\s*\.map\(', m)
        if not mm:
            break
        op = mm.end() - 1
        close = rs.match_brace(m, op)
        tail = re.match(r'\s*\.collect\(\)', m[close + 1:])
        if not tail:
            raise Unsupported('R6g: map not followed by .collect()')
        inner = out[op + 1:close]
        cm = re.match(r'\s*\|\s*&\s*([a-z_][a-z0-9_]*)\s*\|\s*', inner)
        if not cm:
            raise Unsupported('R6g: closure not recognised')
        x, body = cm.group(1), inner[cm.end():].strip()
        # receiver: back to the start of the expression statement (previous ';', '{', '}' or '=' at depth 0)
        k = mm.start() - 1
        d = 0
        while k >= 0:
            ch = m[k]
            if ch in ')]}':
                d += 1
            elif ch in '([{':
                if d == 0:
                    break
                d -= 1
            elif d == 0 and ch in ';=':
                break
            k -= 1
        recv = out[k + 1:mm.start()].strip()
        lead = out[k + 1:mm.start()]
        lead_ws = lead[:len(lead) - len(lead.lstrip())]
        rep = ('%s({ let __r6_src = %s; let mut __r6_out = Vec::new(); let mut __r6_i: usize = 0;\n'
               '        while __r6_i < __r6_src.len() {\n'
               '            let %s = __r6_src[__r6_i];\n'
               '            __r6_out.push(%s);\n'
               '            __r6_i += 1;\n'
               '        }\n'
               '        __r6_out })') % (lead_ws, recv, x, body)
        out = out[:k + 1] + rep + out[close + 1 + tail.end():]
        n += 1
    # R6q: tail expression `X.and_then(|V| { V.into_iter().map(|E| { BODY }).collect() })` with `collect` into a
    # Result<Vec<_>, _>  ->  match on X; the defining loop of collecting results: the first Err is returned, otherwise Ok of
    # the values in order.  `return` is correct because the expression is the function's result (checked: only the closing
    # brace of the function follows it).
    while True:
        m = rs.mask(out)
        mm = re.search(r'\b([a-z_][a-z0-9_]*)\s*\.and_then\(\s*\|\s*([a-z_][a-z0-9_]*)\s*\|\s*\{', m)
        if not mm:
            break
        op = m.index('(', mm.start())
        cp = rs.match_brace(m, op)
        ob = mm.end() - 1
        cb = rs.match_brace(m, ob)
        if m[cb + 1:cp].strip() != '' or m[cp + 1:].strip() != '}':
            raise Unsupported('R6q: and_then is not the result expression of the function')
        x, v = mm.group(1), mm.group(2)
        inner_m = m[ob + 1:cb]
        im = re.match(r'\s*%s\s*\.into_iter\(\)\s*\.map\(\s*\|\s*([a-z_][a-z0-9_]*)\s*\|\s*\{' % re.escape(v), inner_m)
        if not im:
            raise Unsupported('R6q: closure body is not V.into_iter().map(|E| {..}).collect()')
        bo = ob + 1 + im.end() - 1
        bc = rs.match_brace(m, bo)
        mo = m.index('(', ob + 1 + im.start() + inner_m[im.start():].index('.map'))
        mc = rs.match_brace(m, mo)
        if m[bc + 1:mc].strip() != '' or not re.match(r'\s*\.collect\(\)\s*$', m[mc + 1:cb]):
            raise Unsupported('R6q: map closure not followed by .collect()')
        e, body = im.group(1), out[bo:bc + 1]
        rep = ('match %s {\n'
               '            Err(__r6_e) => Err(__r6_e),\n'
               '            Ok(%s) => {\n'
               '                let mut __r6_res = Vec::new(); let mut __r6_i: usize = 0;\n'
               '                while __r6_i < %s.len() {\n'
               '                    let %s = &%s[__r6_i];\n'
               '                    match %s { Ok(__r6_x) => { __r6_res.push(__r6_x); } Err(__r6_e) => { return Err(__r6_e); } }\n'
               '                    __r6_i += 1;\n'
               '                }\n'
               '                Ok(__r6_res)\n'
               '            }\n'
               '        }') % (x, v, v, e, v, body)
        out = out[:mm.start()] + rep + out[cp + 1:]
        n += 1
    if n:
        log.append(('R6', n))
    return out


def _rule_r12(text, log):
    """R12: compound assignment `lhs op= rhs;` -> `lhs = lhs op (rhs);` (Verus crashes on compound assignment
    to floats; the two forms are equivalent for every primitive numeric type)."""
    m = rs.mask(text)
    out = []
    last = 0
    n = 0
    for mm in re.finditer(r'(?<![A-Za-z0-9_\]\)\.])(\*?[A-Za-z_][A-Za-z0-9_]*(?:\.[A-Za-z_0-9]+|\[[^\[\]]*(?:\[[^\]]*\][^\[\]]*)*\])*)\s*([-+*/%])=(?!=)', m):
        if mm.start() < last:
            continue
        # rhs runs to the ';' at depth 0
        j = mm.end()
        d = 0
        while j < len(m):
            ch = m[j]
            if ch in '([{':
                d += 1
            elif ch in ')]}':
                if d == 0:
                    break
                d -= 1
            elif ch == ';' and d == 0:
                break
            elif ch == ',' and d == 0:
                break
            j += 1
        lhs = text[mm.start(1):mm.end(1)]
        rhs = text[mm.end():j].strip()
        out.append(text[last:mm.start()])
        out.append('%s = %s %s (%s)' % (lhs, lhs, mm.group(2), rhs))
        last = j
        n += 1
    out.append(text[last:])
    if n:
        log.append(('R12', n))
    return ''.join(out)


_ACTIVE_RULES = []


def apply_rewrites(text, log, rules, keep_eq=False):
    global _ACTIVE_RULES
    _ACTIVE_RULES = rules
    text = _strip_docs_attrs(text, log, keep_eq)
    if 'D2' in rules:
        text = _rule_d2(text, log)
    if 'R18' in rules:
        text = _rule_r18(text, log)
    if 'R27' in rules:
        text = _rule_r27(text, log)
    if 'R24' in rules:
        text = _rule_r24(text, log)
    if 'R26' in rules:
        text = _rule_r26(text, log)
    if 'R28' in rules:
        text = _rule_r28(text, log)
    if 'R29' in rules:
        text = _rule_r29(text, log)
    if 'R20' in rules:
        text = _rule_r20(text, log)
    if 'R23' in rules:
        text = _rule_r23(text, log)
    if 'R21' in rules:
        text = _rule_r21(text, log)
    if 'R30' in rules:
        # `X.dedup();` -> `vec_dedup(&mut X);` (prelude seqs: assumed - the result is no longer than the input, nothing else); the tree
        # does not use dedup: the rule exists so that a change which introduces it fails the obligations it breaks
        text, n30 = re.subn(r'\b([a-z_][a-z0-9_]*)\s*\.dedup\(\)\s*;', r'vec_dedup(&mut \1);', text)
        if n30:
            log.append(('R30', n30))
    if 'R22' in rules:
        # A.into_iter().chain(B.into_iter()).collect()  ->  vec_concat(A, B)   (std contract: A's elements then B's)
        text, n22 = re.subn(r'\b([a-z_][a-z0-9_]*)\s*\.into_iter\(\)\s*\.chain\(\s*([a-z_][a-z0-9_]*)\.into_iter\(\)\s*\)\s*\.collect\(\)', r'vec_concat(\1, \2)', text)
        if n22:
            log.append(('R22', n22))
        # vec![X.clone()] / vec![X]  ->  vec_one(..)
        text, n22b = re.subn(r'\bvec!\[\s*([a-z_][a-z0-9_]*)\.clone\(\)\s*\]', r'vec_one(*\1)', text)
        if n22b:
            log.append(('R22b', n22b))
    if 'R2' in rules:
        text = _rule_r2_r3(text, log)
    if 'R10' in rules:
        text, n10 = re.subn(r'\b([a-z_][a-z0-9_]*)\[\(\s*([^,\[\]()]+?)\s*,\s*([^,\[\]()]+?)\s*\)\]', r'\1.at(\2, \3)', text)
        if n10:
            log.append(('R10', n10))
    if 'R13' in rules:
        # i8 -> f64 cast of a sign correction: Verus gives the exec cast no spec; route it through a shim
        text, n13 = re.subn(r'\b([A-Za-z_][A-Za-z0-9_.]*sign_corrections\[[^\[\]]*\])\s+as\s+f64', r'i8_to_f64(\1)', text)
        if n13:
            log.append(('R13', n13))
    if 'R15' in rules and re.search(r'\bfn\b', text):
        # const items nested in a function body -> let bindings (same value; Verus rejects float expressions in consts)
        text, n15 = re.subn(r'(?m)^([ \t]+)const\s+([A-Z_0-9]+)\s*:', r'\1let \2:', text)
        if n15:
            log.append(('R15', n15))
    if 'R4' in rules:
        text, n4 = re.subn(r'\b([a-z_][a-z0-9_]*)\.extend\(&([a-z_][a-z0-9_]*)\);', r'vec_extend_ref(&mut \1, &\2);', text)
        if n4:
            log.append(('R4', n4))
    if 'R17' in rules:
        while True:
            m17 = rs.mask(text)
            mm = re.search(r'for\s+&([a-z_][a-z0-9_]*)\s+in\s+&\[([^\[\]]*)\]\s*\{', m17)
            if not mm:
                break
            bo = mm.end() - 1
            bc = rs.match_brace(m17, bo)
            body17 = text[bo + 1:bc]
            elems = [e.strip() for e in mm.group(2).split(',') if e.strip()]
            rep = ' '.join('let %s = %s; %s' % (mm.group(1), e, body17.strip()) for e in elems)
            text = text[:mm.start()] + rep + text[bc + 1:]
            log.append(('R17', 1))
    if 'R6' in rules:
        text = _rule_r6(text, log)
    if 'R16' in rules:
        # `for j in (A..B).rev() {` -> `let mut j = B; while j > A { j = j - 1;`  (Verus accepts .rev() but gives the loop
        # variable no meaning in invariants); the index is stepped first, so `continue` behaves as in the original
        def r16(mm):
            return '%slet mut %s: usize = %s; %swhile %s > %s { %s = %s - 1;' % (mm.group(1), mm.group(3), mm.group(5).strip(), mm.group(2), mm.group(3), mm.group(4).strip(), mm.group(3), mm.group(3))
        text, n16 = re.subn(r"(^[ \t]*)((?:'[a-z_]+\s*:\s*)?)for\s+([a-z_][a-z0-9_]*)\s+in\s+\(\s*(\([^()]*\)|[A-Za-z0-9_]+)\s*\.\.\s*([A-Za-z0-9_]+)\s*\)\.rev\(\)\s*\{", r16, text, flags=re.M)
        if n16:
            log.append(('R16', n16))
    if 'R14' in rules:
        # `for x in 0..E.len() {`  ->  `let __n_x = E.len(); for x in 0..__n_x {`  (the range is evaluated once at
        # loop entry in Rust as well; naming the bound lets invariants speak about it when E is mutated in the body)
        def r14(mm):
            return '%slet __n_%s = %s.len(); %sfor %s in 0..__n_%s {' % (mm.group(1), mm.group(3), mm.group(4), mm.group(2), mm.group(3), mm.group(3))
        text, n14 = re.subn(r"(^[ \t]*)((?:'[a-z_]+\s*:\s*)?)for\s+([a-z_][a-z0-9_]*)\s+in\s+0\.\.([A-Za-z_][A-Za-z0-9_.]*)\.len\(\)\s*\{", r14, text, flags=re.M)
        if n14:
            log.append(('R14', n14))
    if 'R12' in rules:
        text = _rule_r12(text, log)
    if 'R8' in rules:
        text = _rule_r8(text, log)
    text = _apply_subst(text, log, rules)
    for r in rules:
        if r.startswith('DEREF:') and re.search(r'\bfn\b', text):
            text = _rule_r25(text, log, [t.strip() for t in r[6:].split(',') if t.strip()])
    return text


def _apply_subst(text, log, rules):
    for r in rules:
        if r.startswith('SW:'):
            # like S, but whitespace-insensitive: the pattern may span lines in the source
            old, new = r[3:].split('=>', 1)
            toks = [re.escape(t) for t in old.split()]
            rx = re.compile(r'\s*'.join(toks))
            text, cnt = rx.subn(lambda m_: new.replace('\\n', '\n'), text)
            if cnt:
                log.append(('SW:%s=>%s' % (old, new), cnt))
            continue
        if r.startswith('RX:'):
            # unit-declared REGEX substitution  RX:pattern=>replacement (python re syntax, \\1.. for groups); used where a family
            # of spellings must be routed through the same shim (e.g. `<expr> == CheckMode::X` -> `mode_eq(<expr>, CheckMode::X)`)
            old, new = r[3:].split('=>', 1)
            text, cnt = re.subn(old, new, text)
            if cnt:
                log.append(('RX:%s=>%s' % (old, new), cnt))
            continue
        if r.startswith('S:'):
            # unit-declared token substitution  S:old=>new  (listed in evidence; used only for
            # dependency paths such as `nalgebra::Vector3` -> `Vector3`)
            old, new = r[2:].split('=>', 1)
            cnt = text.count(old)
            if cnt:
                text = text.replace(old, new)
                log.append(('S:%s=>%s' % (old, new), cnt))
    return text


# --------------------------------------------------------------------------- const rule R1
def const_r1(item_text, name_hint=None):
    """`const X: f64 = <expr>;`  ->  external_body const + axiom with the same expression over reals."""
    mm = re.match(r'\s*(pub(?:\([a-z]+\))?\s+)?const\s+([A-Z_0-9a-z]+)\s*:\s*(f64|f32)\s*=\s*(.*?);\s*$', item_text, re.S)
    if not mm:
        raise Unsupported('R1: not a float const: %r' % item_text[:60])
    vis, name, ty, expr = mm.group(1) or '', mm.group(2), mm.group(3), mm.group(4).strip()
    rexpr = float_expr_to_real(expr)
    fn = 'fin' if ty == 'f64' else 'fin32'
    rvf = 'rv' if ty == 'f64' else 'rv32'
    fact = '%s(%s), %s(%s) == %s' % (fn, name, rvf, name, rexpr)
    gen = ('#[verifier::external_body]\n%sconst %s: %s = %s;\n'
           'axiom fn ax_const_%s() ensures %s;\n') % (vis, name, ty, expr, name, fact)
    return gen, name, fact


def float_expr_to_real(expr):
    """Translate a constant float expression (literals, named consts, + - * / parentheses) to a
    real-valued spec expression: literal 1.5 -> 1.5real, 1E-6 -> decimal, NAME -> rv(NAME), PI -> pi()."""
    toks = re.findall(r'\d+\.\d*(?:[eE][-+]?\d+)?|\d+[eE][-+]?\d+|\d+\.?|[A-Za-z_][A-Za-z0-9_:]*|[-+*/()]', expr)
    if ''.join(toks) != re.sub(r'\s+', '', expr):
        raise Unsupported('R1: cannot translate const expression %r' % expr)
    out = []
    for t in toks:
        if re.match(r'\d', t):
            out.append(lit_to_real(t))
        elif re.match(r'[A-Za-z_]', t):
            base = t.split('::')[-1]
            if base == 'PI':
                out.append('pi()')
            else:
                out.append('rv(%s)' % base)
        else:
            out.append(t)
    return ' '.join(out)


def lit_to_real(t):
    from decimal import Decimal
    t = t.rstrip('_').replace('_', '')
    if t.endswith('f64'):
        t = t[:-3]
    d = Decimal(t)
    s = format(d, 'f')
    if '.' in s:
        s = s.rstrip('0').rstrip('.')
    if s == '' or s == '-':
        s = '0'
    return s + 'real'


# --------------------------------------------------------------------------- float literal axioms
def float_literals(text):
    m = rs.mask(text)
    lits = set()
    for mm in re.finditer(r'(?<![A-Za-z0-9_.])(\d[\d_]*\.\d[\d_]*(?:[eE][-+]?\d+)?|\d[\d_]*[eE][-+]?\d+|\d[\d_]*\.(?![\d.A-Za-z_]))(f64)?', m):
        lits.add(mm.group(1))
    return lits


# --------------------------------------------------------------------------- template parsing
def bitflags_model(src, name, log):
    """kind=bitflags: the `bitflags!` invocation declaring `struct NAME: uN` is turned into a plain
    struct {b: uN} whose associated constants carry the values EVALUATED from the constant expressions
    in the source, with the bitflags-2 operator semantics (| & retain bits, ! truncates to known bits,
    contains = (a & b == b)) given through the *SpecImpl traits.  The macro itself is not verified."""
    m = rs.mask(src)
    for mm in re.finditer(r'\bbitflags!\s*\{', m):
        close = rs.match_brace(m, mm.end() - 1)
        sm = re.search(r'pub\s+struct\s+%s\s*:\s*(u\d+)\s*\{' % re.escape(name), m[mm.end():close])
        if not sm:
            continue
        ty = sm.group(1)
        so = mm.end() + sm.end() - 1
        sc = rs.match_brace(m, so)
        body = m[so + 1:sc]
        raw = src[mm.start():close + 1]
        vals = {}
        order = []
        for cm in re.finditer(r'\bconst\s+([A-Z_][A-Z0-9_]*)\s*=\s*([^;]+);', body):
            cname, expr = cm.group(1), cm.group(2)
            e = re.sub(r'Self::([A-Z_][A-Z0-9_]*)\.bits\(\)', lambda k: str(vals[k.group(1)]) if k.group(1) in vals else '__UNKNOWN__', expr)
            if not re.fullmatch(r'[0-9a-fA-Fxob_\s|&<>()+~^-]+', e):
                raise Unsupported('bitflags %s::%s: constant expression not evaluable: %s' % (name, cname, expr.strip()))
            v = eval(e, {'__builtins__': {}}, {})
            width = int(ty[1:])
            if not (0 <= v < (1 << width)):
                raise Unsupported('bitflags %s::%s: value out of range' % (name, cname))
            vals[cname] = v
            order.append(cname)
        if not order:
            raise Unsupported('bitflags %s: no constants found' % name)
        allbits = 0
        for c in order:
            allbits |= vals[c]
        N = name
        out = []
        out.append('#[derive(Clone, Copy)]\npub struct %s { pub b: %s }' % (N, ty))
        out.append('impl %s {' % N)
        for c in order:
            out.append('    pub const %s: %s = %s { b: %d%s };' % (c, N, N, vals[c], ty))
        out.append('    pub open spec fn all_bits() -> %s { %d%s }' % (ty, allbits, ty))
        out.append('    pub fn bits(&self) -> (r: %s) ensures r == self.b { self.b }' % ty)
        out.append('    pub fn contains(&self, o: %s) -> (r: bool) ensures r == (self.b & o.b == o.b) { self.b & o.b == o.b }' % N)
        out.append('    pub fn intersects(&self, o: %s) -> (r: bool) ensures r == (self.b & o.b != 0) { self.b & o.b != 0 }' % N)
        out.append('    pub fn is_empty(&self) -> (r: bool) ensures r == (self.b == 0) { self.b == 0 }')
        out.append('}')
        for tr, op, sym in (('BitOr', 'bitor', '|'), ('BitAnd', 'bitand', '&')):
            out.append('impl core::ops::%s for %s { type Output = %s; fn %s(self, o: %s) -> (r: %s) { %s { b: self.b %s o.b } } }' % (tr, N, N, op, N, N, N, sym))
            out.append('impl vstd::std_specs::ops::%sSpecImpl for %s {\n    open spec fn obeys_%s_spec() -> bool { true }\n    open spec fn %s_req(self, o: %s) -> bool { true }\n    open spec fn %s_spec(self, o: %s) -> %s { %s { b: self.b %s o.b } }\n}' % (tr, N, op, op, N, op, N, N, N, sym))
        out.append('impl core::ops::Not for %s { type Output = %s; fn not(self) -> (r: %s) { %s { b: !self.b & %d%s } } }' % (N, N, N, N, allbits, ty))
        out.append('impl vstd::std_specs::ops::NotSpecImpl for %s {\n    open spec fn obeys_not_spec() -> bool { true }\n    open spec fn not_req(self) -> bool { true }\n    open spec fn not_spec(self) -> %s { %s { b: !self.b & %d%s } }\n}' % (N, N, N, allbits, ty))
        log.append(('BF', len(order)))
        return '\n'.join(out), raw, (src.count('\n', 0, mm.start()) + 1, src.count('\n', 0, close) + 1)
    raise Unsupported('bitflags struct %s not found' % name)


def _split_top(txt):
    """split at top-level commas (depth 0 w.r.t. () [] {} <>); txt is source, a mask of it is used for scanning"""
    m = rs.mask(txt)
    parts, depth, last = [], 0, 0
    for i, c in enumerate(m):
        if c in '([{':
            depth += 1
        elif c in ')]}':
            depth -= 1
        elif c == '<' and i + 1 < len(m) and (m[i - 1].isalnum() or m[i - 1] in '_:'):
            depth += 1
        elif c == '>' and depth > 0 and m[i - 1] != '-' and m[i - 1] != '=':
            depth -= 1
        elif c == ',' and depth == 0:
            parts.append(txt[last:i])
            last = i + 1
    if txt[last:].strip():
        parts.append(txt[last:])
    return [x.strip() for x in parts]


def inline_helper(text, src, name, log, only_type=None):
    """rule IN: a call of a helper function that is NOT among the extracted items (typically one introduced by a
    refactoring) is replaced by the helper's body with the arguments bound to the parameters:
        recv.NAME(a, b)  ->  ({ let __in_recv = recv; let __in_0 = a; let __in_1 = b; let p: T = __in_0; let q: U = __in_1; BODY })
    (`self` in BODY -> `__in_recv`, `Self::` -> the impl's type).  Only helpers whose body has no `return` / `?` and whose
    parameters are plain identifiers are inlined; anything else is left alone (the verifier then stays undecided)."""
    m = rs.mask(src)
    dm = None
    for cand in re.finditer(r'\bfn\s+%s\s*(<[^>{(]*>)?\s*\(' % re.escape(name), m):
        dm = cand
        break
    if dm is None:
        return text, 0
    po = dm.end() - 1
    pc = rs.match_brace(m, po)
    bo = m.find('{', pc)
    semi = m.find(';', pc)
    if bo < 0 or (0 <= semi < bo):
        return text, 0
    bc = rs.match_brace(m, bo)
    body = src[bo + 1:bc]
    mb = m[bo + 1:bc]
    if re.search(r'\breturn\b', mb) or re.search(r'\?\s*[;.)\n]', mb):
        return text, 0
    params = _split_top(src[po + 1:pc])
    has_self = bool(params) and re.fullmatch(r'&?\s*(?:\'[a-z_]+\s+)?(?:mut\s+)?self', params[0]) is not None
    if has_self:
        params = params[1:]
    plist = []
    for prm in params:
        pm = re.fullmatch(r'(mut\s+)?([a-z_][a-z0-9_]*)\s*:\s*(.+)', prm, re.S)
        if not pm:
            return text, 0
        plist.append((pm.group(1) or '', pm.group(2), re.sub(r"&\s*'[a-z_]+\s+", '&', pm.group(3).strip())))
    # type of the enclosing impl (for `Self::`)
    ty = None
    for im in re.finditer(r'\bimpl\b[^{;]*\{', m):
        ic = rs.match_brace(m, im.end() - 1)
        if im.end() <= dm.start() < ic:
            hm = re.search(r'(?:for\s+)?([A-Z][A-Za-z0-9_]*)\s*(?:<[^>]*>)?\s*\{$', src[im.start():im.end()].strip())
            ty = hm.group(1) if hm else None
    if only_type and ty != only_type:
        return text, 0
    if has_self:
        mbody = rs.mask(body)
        out, last = [], 0
        for sm in re.finditer(r'\bself\b', mbody):
            out.append(body[last:sm.start()])
            out.append('__in_recv')
            last = sm.end()
        out.append(body[last:])
        body = ''.join(out)
    if ty:
        body = re.sub(r'\bSelf::', ty + '::', body)
    n = 0
    while True:
        mt = rs.mask(text)
        if has_self:
            cm = None
            for c2 in re.finditer(r'(\b[A-Za-z_][A-Za-z0-9_]*(?:\s*\.\s*[a-z_][a-z0-9_]*)*)\s*\.\s*%s\s*\(' % re.escape(name), mt):
                cm = c2
                break
        else:
            cm = None
            for c2 in re.finditer(r'(?<![A-Za-z0-9_.])(?:Self::|[A-Z][A-Za-z0-9_]*::)?%s\s*\(' % re.escape(name), mt):
                if re.search(r'\bfn\s+$', mt[:c2.start()]):
                    continue
                cm = c2
                break
        if cm is None:
            break
        op = cm.end() - 1
        cp = rs.match_brace(mt, op)
        args = _split_top(text[op + 1:cp])
        if len(args) != len(plist):
            break
        binds = []
        if has_self:
            binds.append('let __in_recv = %s;' % cm.group(1).strip())
        for k, a in enumerate(args):
            binds.append('let __in_%d = %s;' % (k, a))
        for k, (mu, pn, pt) in enumerate(plist):
            binds.append('let %s%s: %s = __in_%d;' % (mu, pn, pt, k))
        rep = '({ ' + ' '.join(binds) + '\n' + body + ' })'
        text = text[:cm.start()] + rep + text[cp + 1:]
        n += 1
        if n > 20:
            break
    if n:
        log.append(('IN:%s' % name, n))
    return text, n


# --------------------------------------------------------------------------- rename adaptation (rule RN)
_BINDER_RES = [
    r'\blet\s+(?:mut\s+)?([a-z_][A-Za-z0-9_]*)\b(?!\s*::)',
    r'\bfor\s+([a-z_][A-Za-z0-9_]*)\s+in\b',
]


def binders(text):
    """ordered list of the names a function binds: parameters (nested fns included), `let` / `for` variables,
    tuple patterns of lets and fors, closure parameters, `Some(x)` / `Ok(x)` / `Err(x)` patterns."""
    m = rs.mask(text)
    found = []
    # parameters of every fn in the text
    for fm in re.finditer(r'\bfn\s+[A-Za-z_][A-Za-z0-9_]*\s*(?:<[^()]*>)?\s*\(', m):
        pc = rs.match_brace(m, fm.end() - 1)
        for prm in _split_top(text[fm.end():pc]):
            pm = re.match(r'(?:mut\s+)?([a-z_][A-Za-z0-9_]*)\s*:', prm)
            if pm:
                found.append((fm.end() + text[fm.end():pc].find(prm), pm.group(1)))
    for rx in _BINDER_RES:
        for mm in re.finditer(rx, m):
            found.append((mm.start(1), mm.group(1)))
    # tuple patterns: let (a, b) / for (a, b) in / |a, b| / |(a, b)|
    for mm in re.finditer(r'\b(?:let|for)\s*\(([^()=]*(?:\([^()]*\))?[^()=]*)\)\s*(?:=|in\b|:)', m):
        for nm in re.finditer(r'\b(?:mut\s+)?([a-z_][A-Za-z0-9_]*)\b', mm.group(1)):
            if nm.group(1) != 'mut':
                found.append((mm.start(1) + nm.start(1), nm.group(1)))
    for mm in re.finditer(r'(?<![|&])\|([^|{}();]*)\|(?!\|)', m):
        for nm in re.finditer(r'(?:^|[,(&\s])(?:mut\s+)?([a-z_][A-Za-z0-9_]*)\s*(?=[,):]|$)', mm.group(1)):
            found.append((mm.start(1) + nm.start(1), nm.group(1)))
    for mm in re.finditer(r'\b(?:Some|Ok|Err|Reached|Advanced)\(\s*(?:ref\s+|mut\s+)?([a-z_][A-Za-z0-9_]*)\s*\)', m):
        found.append((mm.start(1), mm.group(1)))
    found.sort()
    out, seen = [], set()
    for pos, nm in found:
        if (pos, nm) in seen or nm in ('self', 'mut', '_'):
            continue
        seen.add((pos, nm))
        out.append(nm)
    return out


def binders_scoped(text):
    """{'': binders of the function itself, '<nested fn name>': binders of each fn nested in its body}"""
    m = rs.mask(text)
    first = re.search(r'\bfn\s+[A-Za-z_][A-Za-z0-9_]*', m)
    res = {}
    blanked = text
    if first:
        bo = m.find('{', first.end())
        if bo >= 0:
            for fm in re.finditer(r'\bfn\s+([A-Za-z_][A-Za-z0-9_]*)', m[bo:]):
                st = bo + fm.start()
                ob = m.find('{', st)
                if ob < 0:
                    continue
                cb = rs.match_brace(m, ob)
                res[fm.group(1)] = binders(text[st:cb + 1])
                blanked = blanked[:st] + ' ' * (cb + 1 - st) + blanked[cb + 1:]
    res[''] = binders(blanked)
    # number of leading entries that are parameters of the function itself
    np_ = 0
    if first:
        po = m.find('(', first.end())
        if po >= 0:
            pc = rs.match_brace(m, po)
            for prm in _split_top(text[po + 1:pc]):
                if re.match(r'(?:mut\s+)?([a-z_][A-Za-z0-9_]*)\s*:', prm):
                    np_ += 1
    res['#params'] = np_
    return res


def rename_map(old, cur):
    """positional comparison of two binder lists; a consistent one-to-one renaming or None"""
    if not old or len(old) != len(cur) or old == cur:
        return None
    # names that disappeared are matched, in order, with the names that appeared (robust against reordered statements)
    so, sc = set(old), set(cur)
    removed = [n for i, n in enumerate(old) if n not in sc and n not in old[:i]]
    added = [n for i, n in enumerate(cur) if n not in so and n not in cur[:i]]
    if removed and len(removed) == len(added):
        from collections import Counter
        mp0 = dict(zip(removed, added))
        if Counter(mp0.get(n, n) for n in old) == Counter(cur):
            return mp0
    mp = {}
    for a, b in zip(old, cur):
        if a == b:
            continue
        if mp.get(a, b) != b:
            return None
        mp[a] = b
    if not mp:
        return None
    # a new name must not capture a name that is still in use unchanged
    still = set(a for a, b in zip(old, cur) if a == b)
    if any(b in still and mp.get(b) is None for b in mp.values()):
        return None
    if len(set(mp.values())) != len(mp):
        return None
    return mp


def apply_rename(obj, mp):
    """rename code identifiers inside annotation payloads (strings, nested containers)"""
    if isinstance(obj, str):
        rx = re.compile(r'(?<![A-Za-z0-9_.])(%s)\b(?!\s*\()' % '|'.join(re.escape(k) for k in sorted(mp, key=len, reverse=True)))
        return rx.sub(lambda mm: mp[mm.group(1)], obj)
    if isinstance(obj, dict):
        return {k: apply_rename(v, mp) for k, v in obj.items()}
    if isinstance(obj, (list, tuple)):
        return type(obj)(apply_rename(v, mp) for v in obj)
    return obj


class Region:
    def __init__(self, kind, name, props, first, last):
        self.kind, self.name, self.props, self.first, self.last = kind, name, props, first, last


def sha(text):
    return hashlib.sha256(text.encode()).hexdigest()


def splice_fn(item_text, ann, log):
    """ann: dict(spec=str, start=str, attr=[..], loops={n:(guard,payload)}, before=[(k,text,payload)], tail=str)"""
    prefix, body, rest = rs.fn_parts(item_text)
    lost = []
    for nname, nann in (ann.get('nested') or {}).items():
        mb = rs.mask(body)
        mm = re.search(r'\bfn\s+%s\b' % re.escape(nname), mb)
        if not mm:
            lost.append('nested fn %s not found' % nname)
            continue
        # extent of the nested fn
        j = mm.start()
        pd = 0
        k = j
        while k < len(mb):
            if mb[k] in '([':
                pd += 1
            elif mb[k] in ')]':
                pd -= 1
            elif mb[k] == '{' and pd == 0:
                break
            k += 1
        close = rs.match_brace(mb, k)
        inner = splice_fn(body[j:close + 1], nann, log)
        body = body[:j] + inner + body[close + 1:]
    # contracts of closures bound by rule R24 (markers are comments, so they do not move any anchor)
    for cn, ctxt in (ann.get('closures') or {}).items():
        mk = '/*@closure %d*/' % cn
        if mk in body:
            body = body.replace(mk, '\n' + ctxt + '\n', 1)
        else:
            lost.append('closure %d: marker not found' % cn)
    # loops / before-anchors are located on the body text; collect insertions as (pos, text)
    ins = []
    mbody = rs.mask(body)
    if ann.get('loops'):
        lp = rs.loops_in(body)
        for n, (guard, payload) in ann['loops'].items():
            if n < 1 or n > len(lp):
                lost.append('loop %d not found (function has %d loops)' % (n, len(lp)))
                continue
            kwpos, bopen, kw = lp[n - 1]
            hdr = re.sub(r'\s+', ' ', body[kwpos:bopen]).strip()
            if guard and re.sub(r'\s+', ' ', guard).strip() not in hdr:
                lost.append('loop %d header %r does not contain guard %r' % (n, hdr, guard))
                continue
            ins.append((bopen, '\n' + payload + '\n'))
    for kind in ('loopend', 'loopstart', 'preloop', 'postloop'):
        for n, payload in ann.get(kind, {}).items():
            lp = rs.loops_in(body)
            if n < 1 or n > len(lp):
                lost.append('%s %d: loop not found (function has %d loops)' % (kind, n, len(lp)))
                continue
            if kind == 'loopend':
                pos = rs.match_brace(mbody, lp[n - 1][1])
            elif kind == 'postloop':
                pos = rs.match_brace(mbody, lp[n - 1][1]) + 1
            elif kind == 'loopstart':
                pos = lp[n - 1][1] + 1
            else:
                pos = body.rfind('\n', 0, lp[n - 1][0]) + 1
            ins.append((pos, '\n' + payload + '\n'))
    # unit axioms are re-stated at the head of every loop body (loops are verified in isolation)
    for (kwpos, bopen, kw) in ([] if ann.get('noaxioms') else rs.loops_in(body)):
        ins.append((bopen + 1, ' proof { unit_axioms(); } '))
    for (k, text, payload) in ann.get('before', []):
        # k-th occurrence of text in body (code only), insertion at start of its line;
        # `A` else `B`: B is tried (first occurrence, same line rule) when A is not found
        alts = text.split('` else `')
        pos = -1
        for ai, atext in enumerate(alts):
            cnt = 0
            sidx = 0
            want = k if ai == 0 else 1
            while True:
                p = body.find(atext, sidx)
                if p < 0:
                    break
                if mbody[p] == body[p]:
                    cnt += 1
                    if cnt == want:
                        pos = p
                        break
                sidx = p + 1
            if pos >= 0:
                break
        if pos < 0:
            lost.append('anchor %r (#%d) not found' % (text, k))
            continue
        ls = body.rfind('\n', 0, pos) + 1
        ins.append((ls, payload + '\n'))
    if ann.get('tail'):
        ins.append((len(body) - 1, '\n' + ann['tail'] + '\n'))
    st = '' if ann.get('noaxioms') else 'proof { unit_axioms(); }'
    if ann.get('start'):
        st = st + '\n' + ann['start']
    ins.append((1, '\n' + st + '\n'))
    ins.sort(key=lambda x: -x[0])
    for pos, t in ins:
        body = body[:pos] + t + body[pos:]
    spec = ann.get('spec', '')
    # return value naming: `-> T` becomes `-> (NAME: T)` when the spec asks for it
    rn = ann.get('ret')
    if rn:
        mp = rs.mask(prefix)
        # the arrow that follows the parameter list (a `where` clause may contain closure arrows)
        fm = re.search(r'\bfn\s+[A-Za-z_][A-Za-z0-9_]*\s*(<[^()]*>)?\s*\(', mp)
        idx = -1
        if fm:
            pc = rs.match_brace(mp, fm.end() - 1)
            am = re.match(r'\s*->', mp[pc + 1:])
            if am:
                idx = pc + 1 + am.end() - 2
        if idx < 0:
            raise LostAnchor('function has no return type to name')
        ty = prefix[idx + 2:].strip()
        wh = ''
        mw = re.search(r'\bwhere\b', ty)
        if mw:
            wh = ' ' + ty[mw.start():]
            ty = ty[:mw.start()].strip()
        prefix = prefix[:idx] + '-> (%s: %s)%s\n' % (rn, ty, wh)
    attr_list = list(ann.get('attr', []))
    # loops see the facts established before them (about variables they do not modify): hoisting a pure expression out
    # of a loop, or naming a temporary before it, then does not break an invariant-free fact (unit opt-out: rule NOLI)
    if rs.loops_in(body) and not ann.get('noaxioms') and 'NOLI' not in _ACTIVE_RULES and not any('loop_isolation' in a for a in attr_list):
        attr_list.append('#[verifier::loop_isolation(false)]')
    # termination is claimed only where the unit gives a `decreases` clause
    if rs.loops_in(body) and not ann.get('noaxioms') and not any('exec_allows_no_decreases_clause' in a for a in attr_list):
        attr_list.append('#[verifier::exec_allows_no_decreases_clause]')
    attrs = ''.join(a + '\n' for a in attr_list)
    if lost:
        log.append(('LOST-ANCHOR', lost))
    return attrs + prefix.rstrip() + '\n' + spec + '\n' + body + rest


def splice_trait(text, ann, log):
    """trait item: insert the `traitspec` payload after the opening brace; for each `method NAME` annotation name the
    return value and insert the spec before the `;` of the method declaration."""
    m = rs.mask(text)
    bopen = m.index('{')
    out = text
    ins = []
    if ann.get('traitspec'):
        ins.append((bopen + 1, '\n' + ann['traitspec'] + '\n'))
    lost = []
    for name, a in (ann.get('methods') or {}).items():
        mm = re.search(r'\bfn\s+%s\s*\(' % re.escape(name), m)
        if not mm:
            lost.append('trait method %s not found' % name)
            continue
        close = rs.match_brace(m, mm.end() - 1)
        semi = close + 1
        dd = 0
        while semi < len(m):
            if m[semi] in '([{':
                dd += 1
            elif m[semi] in ')]}':
                dd -= 1
            elif m[semi] == ';' and dd == 0:
                break
            semi += 1
        sig_tail = text[close + 1:semi]
        rn = a.get('ret')
        if rn:
            arrow = sig_tail.find('->')
            if arrow < 0:
                lost.append('trait method %s has no return type' % name)
                continue
            ty = sig_tail[arrow + 2:].strip()
            new_tail = sig_tail[:arrow] + '-> (%s: %s)\n' % (rn, ty)
        else:
            new_tail = sig_tail + '\n'
        ins.append((close + 1, ('REPLACE', semi, new_tail + a.get('spec', '') + '\n')))
    # apply from the end
    def keyf(x):
        return -x[0]
    for pos, payload in sorted(ins, key=keyf):
        if isinstance(payload, tuple):
            _, semi, newt = payload
            out = out[:pos] + newt + out[semi:]
        else:
            out = out[:pos] + payload + out[pos:]
    if lost:
        log.append(('LOST-ANCHOR', lost))
    return out


def parse_unit(path):
    lines = open(path).read().split('\n')
    return lines


def generate(unit_path, repo=REPO, inline=()):
    """Returns dict(text=..., regions=[Region], items=[{path,file,sha,rewrites}], labels={line:label}, preludes=[..])"""
    lines = parse_unit(unit_path)
    out = []          # generated lines
    regions = []
    items = []
    header = dict(prelude=['fl'], broadcast=None, rules=['D2', 'R2', 'R8'], name=os.path.basename(unit_path)[:-3])
    cur_props = []
    cur_region_start = None
    cur_region_name = None

    def emit(text, kind, name, props):
        first = len(out) + 1
        for l in text.split('\n'):
            out.append(l)
        regions.append(Region(kind, name, list(props), first, len(out)))

    body_started = False
    i = 0
    hand = []  # pending hand-written lines

    def flush_hand():
        nonlocal hand
        if hand:
            emit('\n'.join(hand), 'hand', None, cur_props)
            hand = []

    names_path = unit_path[:-3] + '.names.json'
    names_db = json.load(open(names_path)) if os.path.exists(names_path) else {}
    lit_sources = []
    const_axioms = []
    const_facts = {}
    src_cache = {}
    while i < len(lines):
        ln = lines[i]
        s = ln.strip()
        if s.startswith('//@'):
            d = s[3:].strip()
            if d.startswith('prelude '):
                header['prelude'] = d.split()[1:]
            elif d.startswith('broadcast '):
                header['broadcast'] = d.split(None, 1)[1]
            elif d.startswith('rules '):
                header['rules'] = d.split()[1:]
            elif d.startswith('rule+ '):
                header['rules'] = header['rules'] + [d.split(None, 1)[1]]
            elif d.startswith('props'):
                flush_hand()
                cur_props = [p for p in re.split(r'[ ,]+', d[5:].strip()) if p]
            elif d.startswith('item '):
                flush_hand()
                # //@item <file> <path> [props=..] [kind=const|verbatim] [ret=name] [rules=..]
                parts = d.split()
                file = parts[1]
                rest = ' '.join(parts[2:])
                opts = dict(re.findall(r'\b(props|kind|ret|rename|vis|eq)=(\S+)', rest))
                ipath = re.sub(r'\s*\b(props|kind|ret|rename|vis|eq)=\S+', '', rest).strip()
                props = opts.get('props', ','.join(cur_props)).split(',') if (opts.get('props') or cur_props) else []
                ann = dict(attr=[], loops={}, loopend={}, loopstart={}, preloop={}, postloop={}, before=[], ret=opts.get('ret'), nested={})
                top_ann = ann
                i += 1
                section = None
                payload = []
                sect_arg = None

                def close_section():
                    nonlocal section, payload, sect_arg
                    txt = '\n'.join(payload)
                    if section == 'spec':
                        ann['spec'] = txt
                    elif section == 'start':
                        ann['start'] = txt
                    elif section == 'tail':
                        ann['tail'] = txt
                    elif section == 'closure':
                        ann.setdefault('closures', {})[sect_arg] = txt
                    elif section == 'traitspec':
                        top_ann['traitspec'] = txt
                    elif section == 'loop':
                        ann['loops'][sect_arg[0]] = (sect_arg[1], txt)
                    elif section == 'before':
                        ann['before'].append((sect_arg[0], sect_arg[1], txt))
                    elif section in ('loopend', 'loopstart', 'preloop', 'postloop'):
                        ann[section][sect_arg] = txt
                    section, payload, sect_arg = None, [], None

                while i < len(lines):
                    l2 = lines[i]
                    s2 = l2.strip()
                    if s2.startswith('//@'):
                        d2 = s2[3:].strip()
                        if d2 == 'end':
                            close_section()
                            break
                        close_section()
                        if d2.startswith('nested '):
                            nm = d2.split()
                            ann = dict(attr=[], loops={}, loopend={}, loopstart={}, preloop={}, postloop={}, before=[], ret=dict(re.findall(r'(ret)=(\S+)', d2)).get('ret'), nested={})
                            top_ann['nested'][nm[1]] = ann
                        elif d2.startswith('also '):
                            # //@also NEWNAME props=.. requires=`EXPR`: a second copy of this function under another name, with an
                            # extra precondition, checked against the same annotations (a specialisation for other properties)
                            ma = re.match(r'also\s+([A-Za-z_0-9]+)\s+props=(\S+)\s+requires=`(.*)`', d2)
                            top_ann.setdefault('also', []).append((ma.group(1), ma.group(2).split(','), ma.group(3)))
                        elif d2.startswith('closure '):
                            section = 'closure'
                            sect_arg = int(d2.split()[1])
                        elif d2 == 'traitspec':
                            section = 'traitspec'
                        elif d2.startswith('method '):
                            nm = d2.split()
                            ann = dict(attr=[], loops={}, loopend={}, loopstart={}, preloop={}, postloop={}, before=[], ret=dict(re.findall(r'(ret)=(\S+)', d2)).get('ret'), nested={})
                            top_ann.setdefault('methods', {})[nm[1]] = ann
                        elif d2 == 'outer':
                            ann = top_ann
                        elif d2.startswith('attr '):
                            ann['attr'].append(d2[5:])
                        elif d2 == 'spec':
                            section = 'spec'
                        elif d2 == 'start':
                            section = 'start'
                        elif d2 == 'tail':
                            section = 'tail'
                        elif d2.startswith('loop '):
                            mm = re.match(r'loop\s+(\d+)(?:\s+`(.*)`)?', d2)
                            section = 'loop'
                            sect_arg = (int(mm.group(1)), mm.group(2))
                        elif d2.split()[0] in ('loopend', 'loopstart', 'preloop', 'postloop'):
                            section = d2.split()[0]
                            sect_arg = int(d2.split()[1])
                        elif d2.startswith('before '):
                            mm = re.match(r'before\s+(?:(\d+)\s+)?`(.*)`', d2)
                            section = 'before'
                            sect_arg = (int(mm.group(1) or 1), mm.group(2))
                        else:
                            raise Unsupported('unknown directive in item: %s' % d2)
                    else:
                        payload.append(l2)
                    i += 1
                ann = top_ann
                # extract
                fpath = os.path.join(repo, file)
                if fpath not in src_cache:
                    src_cache[fpath] = open(fpath).read()
                src = src_cache[fpath]
                log = []
                kind = opts.get('kind') or 'verbatim'
                if kind == 'bitflags':
                    text, raw, lns = bitflags_model(src, ipath, log)
                    items.append(dict(file=file, path='bitflags ' + ipath, sha256=sha(raw), rewrites=[dict(rule=r, count=c) for r, c in log], lost=[],
                                      lines=list(lns), props=props, kind='bitflags'))
                    emit(text, 'item', ipath, props)
                    i += 1
                    continue
                it, parents = rs.find_item(src, ipath)
                raw = src[it['start']:it['end']]
                # rule RN: the annotations name parameters and locals of the function as it was when they were written
                # (units/<unit>.names.json); a pure renaming in /repo is followed positionally
                rn_map = None
                if it['kind'] == 'fn' and names_db.get(ipath) and kind in ('verbatim', 'contract'):
                    cur_b = binders_scoped(raw)
                    old_b = names_db[ipath]
                    if isinstance(old_b, dict):
                        mp = rename_map(old_b.get('', []), cur_b.get('', []))
                        mp_spec = None
                        if mp is None and old_b.get('#params') == cur_b.get('#params') and len(old_b.get('', [])) == len(cur_b.get('', [])):
                            # a parameter shadowed by a local of the same name: contract clauses see the parameter,
                            # everything spliced into the body sees the local
                            k_ = old_b.get('#params') or 0
                            mp_spec = rename_map(old_b[''][:k_], cur_b[''][:k_]) or {}
                            mp = rename_map(old_b[''][k_:], cur_b[''][k_:]) or {}
                            for a_, b_ in mp_spec.items():
                                mp.setdefault(a_, b_)
                            if not mp and not mp_spec:
                                mp = None
                        nested_ann = ann.get('nested') or {}
                        new_nested = {}
                        nested_names = [k for k in old_b if k and not k.startswith('#')]
                        cur_nested = [k for k in cur_b if k and not k.startswith('#')]
                        renamed = []
                        for nn, nann in nested_ann.items():
                            mpn = rename_map(old_b.get(nn, []), cur_b.get(nn, [])) if nn in cur_b else None
                            if mpn:
                                nann = apply_rename(nann, mpn)
                                renamed.append('%s{%s}' % (nn, ','.join('%s->%s' % kv for kv in sorted(mpn.items()))))
                            new_nested[nn] = nann
                        if mp:
                            rn_map = mp
                            early = {k_: ann.get(k_) for k_ in ('spec', 'start')}
                            ann = apply_rename({k: v for k, v in ann.items() if k != 'nested'}, mp)
                            if mp_spec is not None:
                                for k_, v_ in early.items():
                                    if v_ is not None:
                                        ann[k_] = apply_rename(v_, mp_spec) if mp_spec else v_
                            renamed.insert(0, ','.join('%s->%s' % kv for kv in sorted(mp.items())))
                        if mp or renamed:
                            ann = dict(ann)
                            ann['nested'] = new_nested
                            top_ann = ann
                            log.append(('RN:' + ';'.join(renamed), max(1, len(renamed))))
                if kind == 'r1':
                    txt = _strip_docs_attrs(raw, log)
                    gen, cname, cfact = const_r1(txt)
                    log.append(('R1', 1))
                    const_axioms.append(cname)
                    const_facts[cname] = cfact
                    text = gen
                elif kind == 'contract':
                    # signature verbatim, body dropped: the contract is ASSUMED here (external_body) and
                    # discharged elsewhere (engine B harness named in the unit) or listed as trusted
                    txt = _strip_docs_attrs(raw, log)
                    prefix, body, rest = rs.fn_parts(txt)
                    prefix = _apply_subst(prefix, log, header['rules'])   # type substitutions in the signature
                    ann2 = dict(ann)
                    text = splice_fn(prefix + '{ unimplemented!() }' + rest, dict(spec=ann.get('spec', ''), ret=ann.get('ret'), attr=['#[verifier::external_body]'] + ann.get('attr', []), noaxioms=True), log)
                    log.append(('CONTRACT-ONLY', 1))
                elif it['kind'] == 'trait':
                    text = apply_rewrites(raw, log, header['rules'])
                    text = splice_trait(text, ann, log)
                else:
                    raw_in = raw
                    if it['kind'] == 'fn' and it['body_open'] is not None:
                        for hn_full in inline:
                            hn_ty, hn = (hn_full.split('::', 1) + [None])[:2] if '::' in hn_full else (None, hn_full)
                            if re.search(r'\b%s\s*\(' % re.escape(hn), rs.mask(raw_in)) and not re.search(r'\bfn\s+%s\b' % re.escape(hn), rs.mask(raw_in)[:rs.mask(raw_in).find('{')]):
                                raw_in, _n = inline_helper(raw_in, src, hn, log, hn_ty)
                                if not _n:
                                    # the helper may live in another file of the crate
                                    import glob as _glob
                                    for of in sorted(_glob.glob(os.path.join(repo, 'src', '**', '*.rs'), recursive=True)):
                                        if of == fpath:
                                            continue
                                        raw_in, _n = inline_helper(raw_in, open(of).read(), hn, log, hn_ty)
                                        if _n:
                                            break
                    rules_item = header['rules']
                    if rn_map:
                        # the unit's literal substitutions name locals too: follow the renaming
                        rules_item = [apply_rename(r_, rn_map) if r_.startswith(('S:', 'SW:')) else r_ for r_ in rules_item]
                    text = apply_rewrites(raw_in, log, rules_item, keep_eq=bool(opts.get('eq')))
                    if it['kind'] == 'fn' and it['body_open'] is not None:
                        # closures that no rewrite rule turned into a loop or bound to a contract stay OPAQUE for the
                        # verifier (their result is unknown): counted, so that a proof failure in such a function is
                        # not mistaken for a counterexample (bin/check)
                        mt_ = rs.mask(text)
                        ncl = len([1 for cm_ in re.finditer(r'(?:[(,=]|\bmove)\s*\|[^|\n]*\|(?!\s*->)(?!\|)', mt_)])
                        if ncl:
                            log.append(('OPAQUE-CLOSURE', ncl))
                        text = splice_fn(text, ann, log)
                    lit_sources.append(text)
                if opts.get('vis') == 'priv':
                    # visibility only: lets the contract mention private fields (logged as rule V)
                    text, nv = re.subn(r'^(\s*(?:#\[[^\]]*\]\s*)*)pub(?:\([a-z]+\))?\s+', r'\1', text, count=1)
                    if not nv:
                        mt = rs.mask(text)
                        mv = re.search(r'\bpub(?:\([a-z]+\))?\s+(?=(?:const\s+|unsafe\s+)*(?:fn|struct|enum)\b)', mt)
                        if mv and not re.search(r'\b(fn|struct|enum)\b', mt[:mv.start()]):
                            text = text[:mv.start()] + text[mv.end():]
                            nv = 1
                    if nv:
                        log.append(('V', nv))
                if opts.get('vis') == 'pub':
                    if not re.match(r'\s*(#\[[^\]]*\]\s*)*pub\b', text):
                        text = re.sub(r'^(\s*(?:#\[[^\]]*\]\s*)*)', r'\1pub ', text, count=1)
                items.append(dict(file=file, path=ipath, sha256=sha(raw), rewrites=[dict(rule=r, count=c) for r, c in log if r != 'LOST-ANCHOR'], lost=[x for r, c in log if r == 'LOST-ANCHOR' for x in c],
                                  lines=[src.count('\n', 0, it['start']) + 1, src.count('\n', 0, it['end']) + 1], props=props, kind=it['kind']))
                emit(text, 'item', ipath, props)
                for (nn, nprops, nreq) in (top_ann.get('also') or []):
                    fm_ = re.search(r'\bfn\s+([A-Za-z_0-9]+)', text)
                    t2 = text[:fm_.start(1)] + nn + text[fm_.end(1):]
                    t2 = re.sub(r'\brequires\b', 'requires ' + nreq + ',', t2, count=1)
                    items.append(dict(file=file, path=ipath + ' [as ' + nn + ']', sha256=sha(raw), rewrites=[dict(rule='ALSO:' + nn, count=1)], lost=[],
                                      lines=[src.count('\n', 0, it['start']) + 1, src.count('\n', 0, it['end']) + 1], props=nprops, kind=it['kind']))
                    emit(t2, 'item', ipath + ' [as ' + nn + ']', nprops)
            else:
                raise Unsupported('unknown directive: %s' % d)
        else:
            hand.append(ln)
        i += 1
    flush_hand()

    # assemble
    pre = []
    pre.append('#![allow(unused_imports, dead_code, unused_variables, unused_mut, non_snake_case, unused_parens, unused_braces, unused_assignments)]')
    pre.append('use vstd::prelude::*;')
    pre.append('verus! {')
    for p in header['prelude']:
        pre.append(open(os.path.join(VERIF, 'verus', 'prelude', p + '.rs')).read())
    pre.append('pub mod unit {')
    pre.append('use vstd::prelude::*;')
    pre.append('use vstd::std_specs::ops::*;')
    pre.append('use vstd::std_specs::cmp::*;')
    pre.append('use core::cmp::Ordering;')
    pre.append('use std::sync::Arc;')
    pre.append('use std::collections::{HashMap, HashSet};')
    for p in header['prelude']:
        pre.append('use super::%s::*;' % p)
    if header['broadcast']:
        pre.append('broadcast use %s;' % header['broadcast'])
    # literal axioms (generated from the literals that occur in the extracted items and hand text)
    lits = set()
    for t in lit_sources:
        lits |= float_literals(t)
    for t in [l for l in out]:
        pass
    lit_lines = []
    ens = []
    for l in sorted(lits):
        ens.append('fin(%sf64), rv(%sf64) == %s' % (_canon_lit(l), _canon_lit(l), lit_to_real(l)))
    lit_lines.append('// float literals occurring in the extracted items (generated, rule R1)')
    lit_lines.append('pub axiom fn ax_literals()')
    lit_lines.append('    ensures true,')
    for e in ens:
        lit_lines.append('        ' + e + ',')
    lit_lines.append(';')
    facts = list(ens)
    for cn in const_axioms:
        pass
    lit_lines.append('proof fn unit_axioms()')
    lit_lines.append('    ensures obeys_all(),')
    for e in ens:
        lit_lines.append('        ' + e + ',')
    for cn in const_axioms:
        lit_lines.append('        %s,' % const_facts[cn])
    lit_lines.append('{ ax_obeys(); ax_literals(); %s }' % ' '.join('ax_const_%s();' % cn for cn in const_axioms))
    pre_text = '\n'.join(pre + lit_lines)
    offset = pre_text.count('\n') + 1
    post = ['// vacuity canary: MUST FAIL (checked by the runner); proves the assumptions in scope are not contradictory',
            'proof fn canary_must_fail() { unit_axioms(); assert(false); }',
            '} // mod unit', '} // verus!', 'fn main() {}', '']
    text = pre_text + '\n' + '\n'.join(out) + '\n' + '\n'.join(post)
    for r in regions:
        r.first += offset
        r.last += offset
    return dict(text=text, regions=regions, items=items, header=header, offset=offset, literals=sorted(lits), consts=const_axioms)


def _canon_lit(l):
    l = l.replace('_', '')
    if l.endswith('.'):
        l = l + '0'
    return l


if __name__ == '__main__':
    g = generate(sys.argv[1])
    sys.stdout.write(g['text'])
