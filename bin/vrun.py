"""Engine A runner: generate a unit, run Verus, map diagnostics to regions/obligations."""
import hashlib
import json
import os
import re
import subprocess
import sys
import time

sys.path.insert(0, os.path.dirname(__file__))
import vgen
import rustscan as rs

VERIF = vgen.VERIF
CACHE = os.path.join(VERIF, '.cache')
VERUS_VERSION = None


def verus_version():
    global VERUS_VERSION
    if VERUS_VERSION is None:
        try:
            VERUS_VERSION = subprocess.run(['verus', '--version'], capture_output=True, text=True).stdout.strip().replace('\n', ' ')
        except Exception as e:
            VERUS_VERSION = 'unknown'
    return VERUS_VERSION


PROOF_FAIL = ('precondition not met', 'postcondition not satisfied', 'precondition not satisfied', 'assertion failed',
              'invariant not satisfied', 'assertion failure', 'cannot show', 'decreases not satisfied',
              'possible arithmetic underflow/overflow', 'possible division by zero',
              'recommendation not met', 'failed this', 'index out of bounds', 'not satisfied',
              'possible bit shift underflow/overflow', 'unreachable', 'unable to prove')
RESOURCE = ('resource limit', 'rlimit', 'timed out', 'time limit', 'solver canceled', 'out of memory')


def classify_msg(msg):
    m = msg.lower()
    for r in RESOURCE:
        if r in m:
            return 'resource'
    for p in PROOF_FAIL:
        if p in m:
            return 'proof'
    return 'other'


def run_unit(unit, repo=vgen.REPO, rlimit=None, use_cache=True, keep=None, extra=()):
    """run_unit_once, and when the front end stops at a call of a function that is not among the extracted items
    (a helper introduced by a refactoring), retry with that helper inlined at its call sites (rule IN, logged)."""
    inline = []
    res = run_unit_once(unit, repo, rlimit, use_cache, keep, tuple(inline), tuple(extra))
    for _round in range(4):
        if res.get('status') != 'undecided' or not res.get('reason'):
            break
        # only helpers of the unit's own types (`unit::T`) or free functions; a missing method of a dependency shim is not a helper
        mm = re.search(r"no method named `([A-Za-z_0-9]+)` found for [a-z ]*`&?(?:mut )?unit::|cannot find function `([A-Za-z_0-9]+)` in this scope|no (?:function or associated item|associated function or constant) named `([A-Za-z_0-9]+)` found for [a-z ]*`unit::", res['reason'])
        if not mm:
            break
        name = mm.group(1) or mm.group(2) or mm.group(3)
        tm = re.search(r"found for [a-z ]*`&?(?:mut )?unit::([A-Za-z_0-9]+)", res['reason'])
        if tm and not mm.group(2):
            name = tm.group(1) + '::' + name      # a method / associated fn of that type only
        if name in inline:
            break
        inline.append(name)
        res2 = run_unit_once(unit, repo, rlimit, use_cache, keep, tuple(inline), tuple(extra))
        applied = any(r_['rule'].startswith('IN:') for it in res2.get('items', []) for r_ in it.get('rewrites', []))
        if not applied:
            break
        res2['inlined'] = list(inline)
        res = res2
    return res


def run_unit_once(unit, repo=vgen.REPO, rlimit=None, use_cache=True, keep=None, inline=(), extra=()):
    """Returns dict: status in {'ok','fail','undecided'}, failures=[{region,name,props,label,msg,line,kind}],
    functions=[{name,mode,ok,micros,rlimit,props,region}], gen=..., times, reason"""
    t0 = time.time()
    unit_path = os.path.join(VERIF, 'units', unit + '.vu')
    res = dict(unit=unit, status='undecided', failures=[], functions=[], reason=None, items=[], rewrites=[], smt_ms=0, total_ms=0, cached=False)
    try:
        g = vgen.generate(unit_path, repo, inline=inline)
    except vgen.LostAnchor as e:
        res['reason'] = 'lost-anchor: %s' % e
        return res
    except (vgen.Unsupported, rs.ScanError) as e:
        res['reason'] = 'extraction: %s' % e
        return res
    except FileNotFoundError as e:
        res['reason'] = 'extraction: %s' % e
        return res
    res['items'] = g['items']
    res['lost'] = [dict(item=i['path'], what=x) for i in g['items'] for x in i.get('lost', [])]
    res['literals'] = g['literals']
    text = g['text']
    key = hashlib.sha256((text + verus_version() + str(rlimit) + ' '.join(extra)).encode()).hexdigest()
    os.makedirs(CACHE, exist_ok=True)
    cpath = os.path.join(CACHE, 'verus_' + key + '.json')
    work = os.environ.get('VERIF_GEN_DIR') or os.path.join(CACHE, 'gen')   # (development tools redirect it)
    os.makedirs(work, exist_ok=True)
    gpath = os.path.join(work, unit + '.rs')
    with open(gpath, 'w') as f:
        f.write(text)
    res['generated'] = gpath
    res['generated_sha256'] = hashlib.sha256(text.encode()).hexdigest()
    if use_cache and os.path.exists(cpath):
        raw = json.load(open(cpath))
        res['cached'] = True
    else:
        cmd = ['verus', gpath, '--output-json', '--time', '--multiple-errors', '50', '--error-format=json', '--num-threads', '8']
        if rlimit:
            cmd += ['--rlimit', str(rlimit)]
        cmd += list(extra)
        try:
            p = subprocess.run(cmd, capture_output=True, text=True, timeout=int(os.environ.get('VERIF_VERUS_TIMEOUT', '900')), cwd=work)
            raw = dict(stdout=p.stdout, stderr=p.stderr, rc=p.returncode, cmd=' '.join(cmd))
        except subprocess.TimeoutExpired:
            raw = dict(stdout='', stderr='', rc=-9, cmd=' '.join(cmd), timeout=True)
        json.dump(raw, open(cpath, 'w'))
    res['cmd'] = raw.get('cmd')
    if raw.get('timeout'):
        res['reason'] = 'verus timeout'
        return res
    try:
        out = json.loads(raw['stdout']) if raw['stdout'].strip() else None
    except Exception:
        out = None
    diags = []
    for l in raw['stderr'].split('\n'):
        l = l.strip()
        if not l.startswith('{'):
            continue
        try:
            diags.append(json.loads(l))
        except Exception:
            pass
    regions = g['regions']
    lines = text.split('\n')

    def region_of(line):
        for r in regions:
            if r.first <= line <= r.last:
                return r
        return None

    def enclosing_fn(line):
        for k in range(line - 1, -1, -1):
            mm = re.match(r'\s*(?:pub(?:\([a-z]+\))?\s+)?(?:open\s+|closed\s+|uninterp\s+|broadcast\s+)*(?:proof\s+|spec\s+|exec\s+|axiom\s+|const\s+)?fn\s+([A-Za-z_0-9]+)', lines[k])
            if mm:
                return mm.group(1)
        return None

    def module_of(line):
        for k in range(line - 1, -1, -1):
            mm = re.match(r'pub mod ([a-z_0-9]+) \{', lines[k])
            if mm:
                return mm.group(1)
        return None

    # function table from the smt breakdown
    fn_region = {}
    for r in regions:
        for k in range(r.first, r.last + 1):
            mm = re.match(r'\s*(?:pub(?:\([a-z]+\))?\s+)?(?:open\s+|closed\s+|broadcast\s+)*(?:proof\s+|exec\s+)?fn\s+([A-Za-z_0-9]+)', lines[k - 1])
            if mm and 'spec fn' not in lines[k - 1] and 'axiom fn' not in lines[k - 1]:
                fn_region.setdefault(mm.group(1), r)
    if out:
        smt = out.get('times-ms', {}).get('smt', {})
        res['smt_ms'] = smt.get('smt-run', 0)
        res['total_ms'] = out.get('times-ms', {}).get('total', 0)
        for m in smt.get('smt-run-module-times', []):
            for f in m.get('function-breakdown', []):
                parts = f['function'].split('::')
                short = parts[-1]
                r = None
                if m['module'] == 'unit':
                    # `unit::Type::method` -> the region extracted as `impl Type::method` / `Trait for Type::method`
                    if len(parts) >= 2:
                        tm = parts[-2] + '::' + short
                        for rg in regions:
                            if rg.name and (rg.name.endswith(' ' + tm) or rg.name.endswith(' ' + tm.split('::')[0] + '::' + short) or rg.name == tm):
                                r = rg
                                break
                    if r is None:
                        r = fn_region.get(short)
                res['functions'].append(dict(name=f['function'], module=m['module'], mode=f.get('mode:'), ok=f['success'],
                                             micros=f.get('time-micros'), rlimit=f.get('rlimit'),
                                             props=(r.props if r else None), region=(r.name if r else None), kind=(r.kind if r else 'prelude')))
        vr = out.get('verification-results', {})
        res['verified'] = vr.get('verified', 0)
        res['errors'] = vr.get('errors', 0)
    hard = []
    for d in diags:
        if d.get('level') != 'error':
            continue
        msg = d.get('message', '')
        if msg.startswith('aborting due to'):
            continue
        prim = [s for s in d.get('spans', []) if s.get('is_primary')]
        line = prim[0]['line_start'] if prim else None
        cls = classify_msg(msg)
        r = region_of(line) if line else None
        # a postcondition declared on a TRAIT method that fails for one implementation is reported at the
        # trait's ensures clause; the implementation (secondary span) is the function under contract
        if r is not None and (r.name or '').startswith('trait '):
            for sp in d.get('spans', []):
                if not sp.get('is_primary') and sp.get('line_start'):
                    r2 = region_of(sp['line_start'])
                    if r2 is not None and r2 is not r:
                        r = r2
                        break
        label = None
        labels = []
        if line:
            cm = re.search(r'//(.*)$', lines[line - 1])
            if cm:
                labels = re.findall(r'\bO-[A-Za-z0-9_-]+!?', cm.group(1))
            if not labels:
                # e.g. a failed precondition: the label sits on the callee's requires clause
                for sp in d.get('spans', []):
                    if not sp.get('is_primary') and sp.get('line_start'):
                        cm2 = re.search(r'//(.*)$', lines[sp['line_start'] - 1])
                        if cm2:
                            labels += re.findall(r'\bO-[A-Za-z0-9_-]+!?', cm2.group(1))
            if labels:
                label = labels[0].rstrip('!')
        fnn = enclosing_fn(line) if line else None
        mod = module_of(line) if line else None
        exits = [s for s in d.get('spans', []) if not s.get('is_primary')]
        entry = dict(msg=msg, line=line, text=(lines[line - 1].strip() if line else None), kind=cls, fn=fnn, module=mod,
                     region=(r.name if r else None), region_kind=(r.kind if r else 'prelude'), props=(r.props if r else None),
                     label=label, labels=labels, secondary=[dict(line=s['line_start'], label=s.get('label'), text=lines[s['line_start'] - 1].strip()) for s in exits][:3])
        if fnn == 'canary_must_fail':
            res['canary_failed'] = True
            continue
        if cls == 'proof' or cls == 'resource':
            res['failures'].append(entry)
        else:
            hard.append(entry)
    if hard:
        res['status'] = 'undecided'
        res['reason'] = 'verus front-end error: %s (line %s: %s)' % (hard[0]['msg'][:200], hard[0]['line'], hard[0]['text'])
        res['hard'] = hard
        return res
    if out is None:
        res['reason'] = 'verus produced no JSON (rc=%s): %s' % (raw.get('rc'), raw['stderr'][:300])
        return res
    res['functions'] = [f for f in res['functions'] if not f['name'].endswith('canary_must_fail')]
    if 'panicked at' in raw['stderr']:
        mm = re.search(r'panicked at ([^\n]*)\n([^\n]*)', raw['stderr'])
        res['status'] = 'undecided'
        res['reason'] = 'verus crashed: %s %s' % (mm.group(1) if mm else '', mm.group(2) if mm else '')
        return res
    if not res.get('canary_failed'):
        res['status'] = 'undecided'
        res['reason'] = 'vacuity canary did not fail: the assumptions in scope are contradictory (or Verus did not reach the unit)'
        return res
    if any(f['kind'] == 'resource' for f in res['failures']):
        res['status'] = 'fail' if any(f['kind'] == 'proof' for f in res['failures']) else 'undecided'
        if res['status'] == 'undecided':
            res['reason'] = 'resource limit in %s' % ', '.join(sorted(set(str(f['fn']) for f in res['failures'])))
    elif res['failures']:
        res['status'] = 'fail'
    elif out.get('verification-results', {}).get('errors') == 1:
        res['status'] = 'ok'   # the single error is the canary
    else:
        res['reason'] = 'verus reported failure without diagnostics'
    res['wall_s'] = time.time() - t0
    return res


if __name__ == '__main__':
    r = run_unit(sys.argv[1], use_cache='--no-cache' not in sys.argv)
    print(json.dumps({k: v for k, v in r.items() if k not in ('items',)}, indent=1)[:6000])
