"""Small Rust-aware item scanner: masks comments/strings, matches braces, locates
items by path.  Used to copy functions verbatim out of /repo/src on every run."""
import re


class ScanError(Exception):
    pass


def mask(src: str) -> str:
    """Return a string of the same length where comments, string and char literals
    are replaced by spaces (newlines kept), so brace matching and regexes are safe."""
    out = list(src)
    i, n = 0, len(src)

    def blank(a, b):
        for k in range(a, b):
            if out[k] != '\n':
                out[k] = ' '

    while i < n:
        c = src[i]
        if c == '/' and i + 1 < n and src[i + 1] == '/':
            j = src.find('\n', i)
            j = n if j < 0 else j
            blank(i, j)
            i = j
        elif c == '/' and i + 1 < n and src[i + 1] == '*':
            depth, j = 1, i + 2
            while j < n and depth:
                if src.startswith('/*', j):
                    depth += 1
                    j += 2
                elif src.startswith('*/', j):
                    depth -= 1
                    j += 2
                else:
                    j += 1
            blank(i, j)
            i = j
        elif c == '"' or (c == 'r' and re.match(r'r#*"', src[i:i + 6]) and (i == 0 or not (src[i - 1].isalnum() or src[i - 1] == '_'))) \
                or (c == 'b' and i + 1 < n and src[i + 1] == '"' and (i == 0 or not (src[i - 1].isalnum() or src[i - 1] == '_'))):
            if c == 'b':
                i += 1
                c = src[i]
            if c == 'r':
                m = re.match(r'r(#*)"', src[i:])
                hashes = m.group(1)
                end = src.find('"' + hashes, i + len(m.group(0)))
                if end < 0:
                    raise ScanError('unterminated raw string')
                j = end + 1 + len(hashes)
                blank(i + 1, j - 1)
                i = j
            else:
                j = i + 1
                while j < n and src[j] != '"':
                    j += 2 if src[j] == '\\' else 1
                blank(i + 1, j)
                i = j + 1
        elif c == "'":
            # char literal or lifetime
            m = re.match(r"'(\\.[^']*|[^\\'])'", src[i:])
            if m:
                blank(i + 1, i + len(m.group(0)) - 1)
                i += len(m.group(0))
            else:
                i += 1
        else:
            i += 1
    return ''.join(out)


def match_brace(m: str, open_idx: int) -> int:
    """m = masked text, open_idx = index of '{' / '(' / '['. Returns index of the matching closer."""
    op = m[open_idx]
    cl = {'{': '}', '(': ')', '[': ']'}[op]
    depth = 0
    for k in range(open_idx, len(m)):
        ch = m[k]
        if ch == op:
            depth += 1
        elif ch == cl:
            depth -= 1
            if depth == 0:
                return k
    raise ScanError('unbalanced %s at %d' % (op, open_idx))


ITEM_KW = r'(?:fn|struct|enum|trait|impl|mod|const|static|type|union)'


def _depth0_positions(m: str, lo: int, hi: int):
    """yield (index) of chars in m[lo:hi] that are at brace depth 0 (all three bracket kinds)."""
    depth = 0
    k = lo
    while k < hi:
        ch = m[k]
        if ch in '{([':
            if depth == 0:
                yield k
            depth += 1
        elif ch in '})]':
            depth -= 1
        elif depth == 0:
            yield k
        k += 1


def top_level_items(src: str, m: str, lo: int, hi: int):
    """List items directly inside src[lo:hi] (the inside of a module/impl/trait body or the file).
    Returns dicts: kind, header (text from keyword to '{' or ';'), start (incl. attrs/docs/vis),
    kw (index of keyword), body_open, end (exclusive)."""
    items = []
    k = lo
    kw_re = re.compile(r'\b(fn|struct|enum|trait|impl|mod|const|static|type|union|use|extern|macro_rules)\b')
    while k < hi:
        mm = kw_re.search(m, k, hi)
        if not mm:
            break
        kw = mm.group(1)
        kwi = mm.start()
        # depth check: we always advance k past complete items so kwi is at depth 0 of [lo,hi)
        # find item terminator: first '{' or ';' at paren/bracket depth 0 after keyword
        j = kwi
        pd = 0
        term = None
        while j < hi:
            ch = m[j]
            if ch in '([':
                pd += 1
            elif ch in ')]':
                pd -= 1
            elif pd == 0 and ch == '{':
                term = j
                break
            elif pd == 0 and ch == ';':
                term = j
                break
            elif pd == 0 and ch == '<':
                pass
            j += 1
        if term is None:
            break
        if kw == 'const' and re.match(r'const\s+fn\b', m[kwi:kwi + 20]):
            # "const fn": treat as fn
            kw = 'fn'
        if kw == 'const' or kw == 'static' or kw == 'type' or kw == 'use' or kw == 'extern':
            # runs to ';' (a const initialiser may contain braces)
            j = kwi
            d = 0
            while j < hi:
                ch = m[j]
                if ch in '{([':
                    d += 1
                elif ch in '})]':
                    d -= 1
                elif ch == ';' and d == 0:
                    break
                j += 1
            end = j + 1
            body_open = None
        elif m[term] == '{':
            end = match_brace(m, term) + 1
            body_open = term
            if kw == 'struct' or kw == 'union':
                pass
        else:
            end = term + 1
            body_open = None
        # start: walk back over attributes, doc comments, visibility, qualifiers
        start = kwi
        # qualifiers on the same logical item: pub, pub(crate), unsafe, async, extern "C", default
        pre = re.search(r'((?:\s*(?:pub(?:\s*\([^)]*\))?|unsafe|async|default|const)\s+)*)$', m[lo:kwi])
        if pre:
            start = lo + pre.start(1)
            # skip leading whitespace
            while start < kwi and m[start] in ' \t\r\n':
                start += 1
        # attributes / doc comments directly above
        while True:
            # look at the text before `start` on previous lines
            line_start = src.rfind('\n', lo, start if start > lo else lo)
            prev_line_start = src.rfind('\n', lo, line_start) + 1 if line_start > lo else lo
            if line_start < lo:
                break
            prev_line = src[prev_line_start:line_start]
            if src[line_start + 1:start].strip() != '':
                break
            s = prev_line.strip()
            if s.startswith('///') or s.startswith('#[') or s.startswith('//!'):
                start = prev_line_start + (len(prev_line) - len(prev_line.lstrip()))
            elif s.endswith(']') and '#[' in s:
                start = prev_line_start + (len(prev_line) - len(prev_line.lstrip()))
            else:
                break
        header = src[kwi:(body_open if body_open is not None else end)]
        items.append(dict(kind=kw, header=header, start=start, kw=kwi, body_open=body_open, end=end))
        k = end
    return items


def _norm(s: str) -> str:
    return re.sub(r'\s+', ' ', s).strip()


def _impl_name(header: str):
    """For 'impl<..> Trait for Type<..>' return 'Trait for Type'; for 'impl Type' return 'Type'."""
    h = _norm(header)
    h = re.sub(r'^impl\s*(<[^>]*>)?\s*', '', h)
    h = re.sub(r'\s*where .*$', '', h)
    # strip generic args
    h = re.sub(r'<[^<>]*>', '', h)
    h = h.replace("'_", '').strip()
    return _norm(h)


def _item_name(it):
    k = it['kind']
    h = _norm(it['header'])
    if k == 'impl':
        return _impl_name(it['header'])
    mm = re.match(r'(?:fn|struct|enum|trait|mod|const|static|type|union)\s+([A-Za-z_][A-Za-z0-9_]*)', h)
    return mm.group(1) if mm else None


def find_item(src: str, path: str):
    """path: '::'-separated; each component is an item name ('Trait for Type' for trait impls).
    Inherent impls of the same type may be split over several blocks: all are searched.
    Returns (item dict, list of enclosing item dicts)."""
    m = mask(src)
    comps = [c.strip() for c in path.split('::')]

    def search(lo, hi, comps, parents):
        items = top_level_items(src, m, lo, hi)
        name = comps[0]
        kind = None
        mk = re.match(r'(fn|struct|enum|trait|impl|mod|const|static|type)\s+(.*)$', name)
        if mk:
            kind, name = mk.group(1), mk.group(2).strip()
        found = []
        for it in items:
            if _item_name(it) == name and (kind is None or it['kind'] == kind):
                if len(comps) == 1:
                    found.append((it, parents))
                elif it['body_open'] is not None:
                    r = search(it['body_open'] + 1, it['end'] - 1, comps[1:], parents + [it])
                    found.extend(r)
        return found

    res = search(0, len(src), comps, [])
    if not res:
        raise ScanError('item not found: %s' % path)
    if len(res) > 1:
        raise ScanError('item ambiguous (%d matches): %s' % (len(res), path))
    return res[0]


def fn_parts(src_item: str):
    """Split a fn item text into (prefix up to end of signature, body including braces).
    prefix ends right before the '{' that opens the body."""
    m = mask(src_item)
    # first '{' at paren depth 0 after 'fn'
    kwi = re.search(r'\bfn\b', m).start()
    pd = 0
    for j in range(kwi, len(m)):
        ch = m[j]
        if ch in '([':
            pd += 1
        elif ch in ')]':
            pd -= 1
        elif ch == '{' and pd == 0:
            close = match_brace(m, j)
            return src_item[:j], src_item[j:close + 1], src_item[close + 1:]
    raise ScanError('fn without body')


def loops_in(body: str):
    """Return list of (kw_index, body_open_index) for each loop (for/while/loop) in body text, in
    source order (nested ones included, order of keyword appearance)."""
    m = mask(body)
    res = []
    for mm in re.finditer(r"(?:'[a-z_A-Z0-9]+\s*:\s*)?\b(for|while|loop)\b", m):
        kw = mm.group(1)
        # find '{' at paren depth 0 after keyword
        pd = 0
        j = mm.end()
        ok = None
        while j < len(m):
            ch = m[j]
            if ch in '([':
                pd += 1
            elif ch in ')]':
                pd -= 1
            elif ch == '{' and pd == 0:
                ok = j
                break
            elif ch == ';' and pd == 0:
                break
            j += 1
        if ok is not None:
            res.append((mm.start(), ok, kw))
    return res
