"""Witness search and replay on the REAL compiled code (crate /verif/replay, path dependency on /repo).
Verus gives no counterexample; for a failed obligation the witness program searches concrete inputs
in the region the obligation talks about and evaluates the real functions against an executable
mirror of the spec.  It never decides a property: it only runs after an obligation failed."""
import json
import os
import subprocess
import sys

VERIF = os.path.dirname(os.path.dirname(os.path.abspath(__file__)))
CRATE = os.path.join(VERIF, 'replay')


def build():
    if not os.path.isdir(CRATE):
        return None
    env = dict(os.environ)
    env['CARGO_NET_OFFLINE'] = 'true'
    lock = '/repo/Cargo.lock'
    try:
        if os.path.exists(lock):
            import shutil
            shutil.copy(lock, os.path.join(CRATE, 'Cargo.lock'))
        p = subprocess.run(['cargo', 'build', '--release', '--offline', '-q'], cwd=CRATE, env=env, capture_output=True, text=True, timeout=1800)
        if p.returncode != 0:
            return dict(error=p.stderr[-2000:])
        return dict(bin=os.path.join(CRATE, 'target', 'release', 'wit'))
    except Exception as e:
        return dict(error=str(e))


def witness_search(prop, violations, seed, cfg):
    if os.environ.get('VERIF_NO_WITNESS'):
        # development switch (mutation scoring on a scratch copy): the witness crate is built against /repo
        return dict(found=False, note='witness search disabled (VERIF_NO_WITNESS)')
    b = build()
    if not b or b.get('error'):
        return dict(found=False, note='witness program unavailable: %s' % (b or {}).get('error', 'no replay crate'))
    names = [n for (_, _, n, _) in violations]
    # several searches with different random seeds (2 in the quick tier, 5 in the thorough tier) before giving up
    tries = int(os.environ.get('VERIF_WITNESS_TRIES', '2') or 2)
    last = dict(found=False, note='no witness search run')
    for t in range(max(1, tries)):
        sd = int(seed) + 7919 * t
        try:
            p = subprocess.run([b['bin'], 'search', prop, str(sd)] + names, capture_output=True, text=True, timeout=600)
            out = p.stdout.strip().split('\n')[-1] if p.stdout.strip() else ''
            try:
                last = json.loads(out)
            except Exception:
                last = dict(found=False, note='witness program output not understood', raw=p.stdout[-800:] + p.stderr[-800:])
        except Exception as e:
            last = dict(found=False, note='witness search failed: %s' % e)
        if last.get('found'):
            last['search_seed'] = sd
            return last
    last['searches'] = tries
    return last


def replay_file(path):
    doc = json.load(open(path))
    print('replay of %s: failed obligations:' % path)
    for o in doc.get('failed_obligations', []):
        print('  %s :: %s' % (o['obligation'], o['verifier_message']))
    w = doc.get('witness') or {}
    if not w.get('found'):
        print('no concrete failing input recorded (no-failing-input-found); verifier output is in the file')
        return 0
    b = build()
    if not b or b.get('error'):
        print('cannot build witness program: %s' % (b or {}).get('error'))
        return 2
    p = subprocess.run([b['bin'], 'replay', path], capture_output=True, text=True, timeout=600)
    sys.stdout.write(p.stdout)
    sys.stderr.write(p.stderr)
    return p.returncode
